(* C09 — evaluate / change parameters / evaluate again: the eval-mode caches of InducingPointKernel
   (inducing_point_kernel.py: _cached_kernel_mat = K_zz, _cached_kernel_inv_root = K_zz^{-1/2}, both filled only outside
   training mode; _clear_cache deletes them; Module.train(mode) calls _clear_cache when entering training mode or when
   leaving it; Module._load_from_state_dict calls _clear_cache in any mode).
   The machine is generic: P parameters (hyperparameters + inducing points), f1 : P -> V1 the cached matrix,
   f2 : V1 -> V2 the cached factor, g : P -> V2 -> R the result built from fresh cross terms and the factor
   (K_xz K_zz^{-1/2})(K_xz K_zz^{-1/2})^T.  GridKernel's single cache is the instance with f2 the identity.
   [clr1] / [clr2] say which slots _clear_cache deletes (the code: both).
   Executable definitions only. *)
From Coq Require Import List Bool.
Import ListNotations.

Section Reeval.
Variables P V1 V2 R : Type.
Variable f1 : P -> V1.
Variable f2 : V1 -> V2.
Variable g : P -> V2 -> R.
Variables clr1 clr2 : bool.

Record st := mk { par : P; training : bool; c1 : option V1; c2 : option V2 }.

Inductive op :=
| OEval                 (* kernel(x) : returns a result *)
| OTrain                (* .train() *)
| OEvalMode             (* .eval() *)
| OSet (p : P)          (* parameter assignment / optimiser step *)
| OLoad (p : P).        (* load_state_dict *)

Definition clear (s : st) : st :=
  mk (par s) (training s) (if clr1 then None else c1 s) (if clr2 then None else c2 s).

(* _inducing_mat *)
Definition get1 (s : st) : V1 * st :=
  match training s, c1 s with
  | false, Some v => (v, s)
  | false, None => let v := f1 (par s) in (v, mk (par s) false (Some v) (c2 s))
  | true, _ => (f1 (par s), s)
  end.

(* _inducing_inv_root *)
Definition get2 (s : st) : V2 * st :=
  match training s, c2 s with
  | false, Some v => (v, s)
  | _, _ => let '(v1, s1) := get1 s in
            let v := f2 v1 in
            (v, if training s1 then s1 else mk (par s1) false (c1 s1) (Some v))
  end.

Definition step (s : st) (o : op) : st * option R :=
  match o with
  | OEval => let '(v, s') := get2 s in (s', Some (g (par s) v))
  | OTrain => let s' := clear s in (mk (par s') true (c1 s') (c2 s'), None)
  | OEvalMode => let s' := if training s then clear s else s in (mk (par s') false (c1 s') (c2 s'), None)
  | OSet p => (mk p (training s) (c1 s) (c2 s), None)
  | OLoad p => let s' := clear s in (mk p (training s') (c1 s') (c2 s'), None)
  end.

(* results of a history, in order *)
Fixpoint run (s : st) (h : list op) : list (option R) :=
  match h with
  | [] => []
  | o :: h' => let '(s', r) := step s o in r :: run s' h'
  end.

(* what every evaluation should return: the dense meaning at the parameters current at that moment *)
Fixpoint spec (p : P) (h : list op) : list (option R) :=
  match h with
  | [] => []
  | OEval :: h' => Some (g p (f2 (f1 p))) :: spec p h'
  | OSet q :: h' => None :: spec q h'
  | OLoad q :: h' => None :: spec q h'
  | _ :: h' => None :: spec p h'
  end.

(* public usage: parameters are assigned only in training mode (load_state_dict in any mode) *)
Fixpoint wf (tr : bool) (h : list op) : bool :=
  match h with
  | [] => true
  | OTrain :: h' => wf true h'
  | OEvalMode :: h' => wf false h'
  | OSet _ :: h' => tr && wf tr h'
  | _ :: h' => wf tr h'
  end.

Definition init (p : P) (tr : bool) : st := mk p tr None None.

End Reeval.
