(* C14 — settings-selected branches of VariationalStrategy.forward (variational_strategy.py).
   settings.trace_mode(True):  predictive_covar = (K_XX + jitter I).to_dense()
                                 + interp_term^T @ middle_term.to_dense() @ interp_term
   i.e. the same three factors as the default (lazy) branch
       SumLinearOperator(K_XX + jitter I, MatmulLinearOperator(interp_term^T, middle_term @ interp_term))
   multiplied from the left instead of from the right.  middle_term = S - I.
   Executable definitions only. *)
From GPV Require Import Base.LinAlg Models.C14_variational.

Section Branches.
Context {K : Fld}.
Local Notation M := (nat -> nat -> car).

(* dense (trace_mode) branch: (A^T (S - I)) A added to Kxx *)
Definition wh_cov_trace_mode (m : nat) (A Kxx Sw : M) : M :=
  madd Kxx (mmul m (mmul m (mT A) (msub Sw mI)) A).

(* the same branch with the correction subtracted (the sign of an (I - S) convention applied to S - I) *)
Definition wh_cov_trace_mode_minus (m : nat) (A Kxx Sw : M) : M :=
  msub Kxx (mmul m (mmul m (mT A) (msub Sw mI)) A).

End Branches.
