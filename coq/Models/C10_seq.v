(* C10 model, part 3: (a) the clamp of MultivariateNormal.variance (multivariate_normal.py:362-383): the floor is
   settings.min_variance.value(dtype of the variance TENSOR), whatever the process default dtype is; stddev and
   confidence_region are derived from the clamped variance.  (b) the operation-sequence state machine: one
   MultivariateNormal object (one batch element of it) under a sequence of public operations
   {*, / scalar (any sign), + constant, + independent MVN, add_jitter, d[..., p], and the operations that leave the
   law of a batch element alone: reading properties (which fills caches), expand, unsqueeze, batch indexing};
   with the cache policy of the code (the cached Cholesky factor is carried over by expand / unsqueeze only).
   Definitions only. *)
From Coq Require Import Arith ZArith List Bool QArith Qcanon.
From GPV Require Import Base.LinAlg Base.Exec Base.Expr Models.C10_mvn.
Import ListNotations.

(* ------------------------------------------------------------------ (a) variance clamp *)
Definition qc_leb (a b : Qc) : bool := Qle_bool (this a) (this b).
Definition qc_max (a b : Qc) : Qc := if qc_leb a b then b else a.

Inductive dtype := F32 | F64 | F16.
Definition dtype_of_Z (z : Z) : dtype := if (z =? 0)%Z then F32 else if (z =? 1)%Z then F64 else F16.

(* settings.min_variance: one floor per dtype (defaults 1e-6, 1e-10, 1e-3; the context manager can change them) *)
Definition floors := (Qc * Qc * Qc)%type.
Definition floor_of (fl : floors) (dt : dtype) : Qc :=
  let '(f32, f64, f16) := fl in match dt with F32 => f32 | F64 => f64 | F16 => f16 end.

(* line 381: min_variance = settings.min_variance.value(variance.dtype).  The first argument (torch's process-wide
   default dtype) is deliberately unused: a float64 distribution is clamped at the float64 floor also when the
   default dtype is float32 *)
Definition variance_floor (default_dt tensor_dt : dtype) (fl : floors) : Qc := floor_of fl tensor_dt.

Definition variance_clamped (mv : Qc) (n : nat) (C : @M QcF) : list Qc :=
  map (fun i => qc_max (C i i) mv) (seq 0 n).

(* input: default dtype, tensor dtype, the three floors, n, covariance (root = false) or an n x r root of it
   (root = true: RootLinearOperator, covariance R R^T).  output: the floor used; the reported variance (n).
   (stddev = sqrt(variance), confidence_region = mean -/+ 2 stddev are formed from this by the driver) *)
Definition run_variance (c : Z * Z * (Qc * Qc * Qc) * nat * bool * nat * list (list Qc)) : list Z :=
  let '(ddt, tdt, fl, n, isroot, r, cv) := c in
  let A := @of_list QcF cv in
  let C : @M QcF := if isroot then mmul r A (mT A) else A in
  let mv := variance_floor (dtype_of_Z ddt) (dtype_of_Z tdt) fl in
  ser_qc mv ++ flat_map ser_qc (variance_clamped mv n C).

(* ------------------------------------------------------------------ (b) operation sequences *)
Section Seq.
Context {K : Fld}.
Local Open Scope fld_scope.

Inductive aop :=
| AMul (a : car)                 (* d * a  (__mul__; d / a is d * (1 / a), __truediv__) *)
| AAddC (c : car)                (* d + c *)
| AAddInd (m2 C2 : M)            (* d + d2 for an independent d2 ~ (m2, C2) *)
| AJitter (eps : car)            (* d.add_jitter(eps) *)
| AGet (k : nat) (p : nat -> nat)   (* d[..., p]: k positions p 0 .. p (k-1) of the event dimension *)
| AKeep                          (* expand / unsqueeze: same law per element; the cached factor is carried over *)
| AObserve (L : option M)        (* reading mean / covariance_matrix / variance / log_prob / scale_tril ... on the
                                    current object: no new object; Some L = this read computed the Cholesky factor L
                                    and left it in the cache (if the cache was empty) *)
| ARebuild.                      (* batch indexing, to a new object through the constructor: same law per element,
                                    empty cache *)

(* state: event size, mean, covariance, cached scale_tril of the current object *)
Definition astate := (nat * M * M * option M)%type.

Definition astep (o : aop) (s : astate) : astate :=
  let '(n, m, C, cache) := s in
  match o with
  | AMul a => (n, mul_mean a m, mul_cov a C, None)
  | AAddC c => (n, add_scalar_mean c m, C, None)
  | AAddInd m2 C2 => (n, sum_mean m m2, sum_cov C C2, None)
  | AJitter e => (n, m, jitter_cov e C, None)
  | AGet k p => (k, getitem_mean p m, getitem_cov p C, None)
  | AKeep => s
  | AObserve L => (n, m, C, match cache with Some L0 => Some L0 | None => L end)
  | ARebuild => (n, m, C, None)
  end.

Definition arun (ops : list aop) (s : astate) : astate := fold_left (fun s o => astep o s) ops s.

(* every operation as an affine map x |-> A x + b plus independent noise of covariance E, from event size n *)
Definition affmap := (nat * M * M * M)%type.
Definition aop_affine (o : aop) (n : nat) : affmap :=
  match o with
  | AMul a => (n, mscale a mI, mzero, mzero)
  | AAddC c => (n, mI, (fun _ _ => c), mzero)
  | AAddInd m2 C2 => (n, mI, m2, C2)
  | AJitter e => (n, mI, mzero, mscale e mI)
  | AGet k p => (k, selmat p, mzero, mzero)
  | AKeep | AObserve _ | ARebuild => (n, mI, mzero, mzero)
  end.

(* composition: first f (from size n to k1), then o *)
Definition acompose (f : affmap) (o : aop) : affmap :=
  let '(k1, A1, b1, E1) := f in
  let '(k2, A2, b2, E2) := aop_affine o k1 in
  (k2, mmul k1 A2 A1, madd (mmul k1 A2 b1) b2, madd (mmul k1 (mmul k1 A2 E1) (mT A2)) E2).

Definition aseq_affine (ops : list aop) (n : nat) : affmap :=
  fold_left acompose ops (n, mI, mzero, mzero).

(* an index operation must address existing positions *)
Definition aop_valid (o : aop) (n : nat) : Prop :=
  match o with AGet k p => forall i, (i < k)%nat -> (p i < n)%nat | _ => True end.
Fixpoint aseq_valid (ops : list aop) (n : nat) : Prop :=
  match ops with
  | [] => True
  | o :: rest => aop_valid o n /\ aseq_valid rest (let '(k, _, _, _) := aop_affine o n in k)
  end.

(* a read that fills the cache must have computed a factor of the CURRENT covariance *)
Fixpoint aseq_reads_ok (ops : list aop) (s : astate) : Prop :=
  match ops with
  | [] => True
  | o :: rest =>
      (match o with
       | AObserve (Some L) => let '(n, _, C, _) := s in meq n n (mmul n L (mT L)) C
       | _ => True end) /\ aseq_reads_ok rest (astep o s)
  end.

Definition cache_ok (s : astate) : Prop :=
  let '(n, _, C, cache) := s in
  match cache with Some L => meq n n (mmul n L (mT L)) C | None => True end.
End Seq.

(* ------------------------------------------------------------------ executable wrapper *)
Inductive sop :=
| SMul (a : Qc) | SDiv (a : Qc) | SAddC (c : Qc) | SAddInd (m2 : list Qc) (C2 : list (list Qc))
| SJitter (e : Qc) | SGet (p : list nat) | SKeep | SObserve | SRebuild.

Definition sop_aop (o : sop) : @aop QcF :=
  match o with
  | SMul a => @AMul QcF a
  | SDiv a => @AMul QcF (@fdiv QcF (@f1 QcF) a)
  | SAddC c => @AAddC QcF c
  | SAddInd m2 C2 => @AAddInd QcF (@vec_of_list QcF m2) (@of_list QcF C2)
  | SJitter e => @AJitter QcF e
  | SGet p => @AGet QcF (length p) (fun i => nth i p O)
  | SKeep => @AKeep QcF
  | SObserve => @AObserve QcF None
  | SRebuild => @ARebuild QcF
  end.

Definition logprob_e (n : nat) (m C v : @M QcF) : option expr :=
  match inv_checked n (mat n n C) with
  | None => None
  | Some Ci =>
      let q := quad n Ci (msub v m) in
      Some (EMul (EConst (qc (-1) 2))
              (EAdd (EAdd (EConst q) (ELog (EConst (det n C))))
                    (EMul (EConst (qc (Z.of_nat n) 1)) (ELog two_pi))))
  end.

Definition kl_e (n : nat) (mp P mq Q : @M QcF) : option expr :=
  match inv_checked n (mat n n Q) with
  | None => None
  | Some Qi =>
      Some (EMul (EConst (qc 1 2))
              (EAdd (ESub (ELog (EConst (det n Q))) (ELog (EConst (det n P))))
                    (EConst (kl_rational n mp P mq Qi))))
  end.

(* entropy = 1/2 ( n (1 + log 2 pi) + log det C ) *)
Definition entropy_e (n : nat) (C : @M QcF) : expr :=
  EMul (EConst (qc 1 2))
    (EAdd (EMul (EConst (qc (Z.of_nat n) 1)) (EAdd (EConst (qc 1 1)) (ELog two_pi))) (ELog (EConst (det n C)))).

Definition ser_oexpr (o : option expr) : list Z :=
  match o with None => [0%Z] | Some e => 1%Z :: ser_expr e end.

(* input: n, mean, covariance of the element the sequence starts from; the operations; the variance floor;
   a value v and a reference law (mq, Cq) of the FINAL event size.
   output: k; mean (k); covariance (k x k); clamped variance (k); log_prob(v); KL(d || ref); KL(ref || d); entropy *)
Definition run_seq (c : nat * list Qc * list (list Qc) * list sop * Qc * list Qc * list Qc * list (list Qc)) : list Z :=
  let '(n, m, cv, ops, mv, v, mq, cq) := c in
  let '(k, m', C', _) := arun (map sop_aop ops) (n, @vec_of_list QcF m, @of_list QcF cv, None) in
  let V := @vec_of_list QcF v in let MQ := @vec_of_list QcF mq in let CQ := @of_list QcF cq in
  Z.of_nat k :: ser_mat k 1 m' ++ ser_mat k k C' ++ flat_map ser_qc (variance_clamped mv k C')
  ++ ser_oexpr (logprob_e k m' C' V) ++ ser_oexpr (kl_e k m' C' MQ CQ) ++ ser_oexpr (kl_e k MQ CQ m' C')
  ++ ser_expr (entropy_e k C').
