(* C08 model, part 3: how the marginal log likelihoods reduce the log density of a hyperparameter prior to the batch
   shape of the objective.  Definitions only.

   A prior is registered on (a function of) the parameters of an owning module.  Its log density ("prior term") has
   shape sp ++ ev: sp = batch shape of the owner's parameters, ev = event dimensions of the value (e.g. [1] for the
   noise, [1; d] for an ARD lengthscale, [d; 1] for LinearMean weights).  The objective has batch shape t (the
   broadcast of sp and the data batch).  Correct: sum over ev, keep sp; element b of the objective then receives the
   term of parameter slice [bproj sp b] (expand semantics, Models/C08_shape.v).

   ExactMarginalLogLikelihood._add_other_terms (gpytorch/mlls/exact_marginal_log_likelihood.py, since /repo 3564e1f):
       num_batch_dims = len(owner.batch_shape) if the owner has a batch_shape attribute else res.ndim
       num_batch_dims = min(num_batch_dims, prior_term.ndim)
       res.add_( prior_term.view( prior_term.shape[:num_batch_dims] + (-1,) ).sum(-1) )
   [owner = Some s]: the owner's batch_shape attribute; [None]: the owner has none (likelihoods, LinearMean, the
   model itself).
   _ApproximateMarginalLogLikelihood.forward (gpytorch/mlls/_approximate_mll.py): prior_term.sum(): keeps nothing. *)
From Coq Require Import Arith List Bool ZArith.
Import ListNotations.
From GPV Require Import Models.C08_shape Models.C08_diag.

Definition prior_batch_dims (owner : option shape) (res_rank term_rank : nat) : nat :=
  Nat.min (match owner with Some s => length s | None => res_rank end) term_rank.
(* shape of what is added to the objective *)
Definition prior_reduced_shape (owner : option shape) (res_rank : nat) (term : shape) : shape :=
  firstn (prior_batch_dims owner res_rank (length term)) term.
Definition approx_prior_reduced_shape (term : shape) : shape := [].

(* input-class bit for the driver: the parameters have a lower batch rank than the objective *)
Definition param_rank_short (sp t : shape) : bool := length sp <? length t.

(* ---- executable wrapper: run_shapes_cls extended by [param_rank_short sp t; rank of the reduced prior term of an
   owner without batch_shape for a value with one event dimension] *)
Definition run_shapes_cls2 (c : nat * (list nat * list nat)) : list Z :=
  let '(n, (sp, sd)) := c in
  run_shapes_cls c ++
  match broadcast_shapes sp sd with
  | None => []
  | Some t => [b2z (param_rank_short sp t); Z.of_nat (length (prior_reduced_shape None (length t) (sp ++ [1])))]
  end.
