(* C07 model: what "a valid covariance" means and the objects the property speaks about.
   - quadratic forms over function matrices with explicit dimension (generic field);
   - the finite-feature kernels of gpytorch/kernels as Gram-type matrices
     (linear_kernel.py, polynomial_kernel.py, index_kernel.py, constant_kernel.py, rff_kernel.py,
      spectral_delta_kernel.py: all of the form  F diag(c) F^T  with c >= 0, and Hadamard
      powers / products of those);
   - the "explained covariance" K*x A^-1 Kx* of the C01 posterior and its one-block update;
   - MultivariateNormal.variance's clamp (distributions/multivariate_normal.py:362-383),
     FixedGaussianNoise's clamp (likelihoods/noise_models.py:145-157);
   - an exact PSD certificate check over Qc ([psd_cert]: A = Lf Lf^T + F diag(c) F^T with c >= 0 for a
     caller-supplied Lf), used by the correspondence on the implementation's matrices.
   Definitions only. *)
From Coq Require Import Arith List ZArith QArith Qcanon Bool.
From GPV Require Import Base.LinAlg Base.Exec Base.Expr Models.C01_posterior Models.C17_constraints.
Import ListNotations.

Section Psd.
Context {K : Fld}.
Local Open Scope fld_scope.

(* x^T A y and x^T A x on the leading n (x m) block *)
Definition bform (n m : nat) (A : M) (x y : nat -> car) : car :=
  sum n (fun i => sum m (fun j => x i * A i j * y j)).
Definition qform (n : nat) (A : M) (x : nat -> car) : car := bform n n A x x.

(* B^T x for B : n x k *)
Definition tvec (n : nat) (B : M) (x : nat -> car) : nat -> car :=
  fun l => sum n (fun i => x i * B i l).

(* entrywise (Hadamard) product, Hadamard power, all-ones matrix scaled by c *)
Definition hadamard (A B : M) : M := fun i j => A i j * B i j.
Fixpoint hpow (p : nat) (A : M) : M :=
  match p with O => (fun _ _ => 1) | S q => hadamard A (hpow q A) end.
Definition mconst (c : car) : M := fun _ _ => c.

(* F F^T  and the weighted Gram matrix  F diag(c) F^T  (F : n x r) *)
Definition gram (r : nat) (F : M) : M := mmul r F (mT F).
Definition wgram (r : nat) (F : M) (c : nat -> car) : M :=
  fun i j => sum r (fun k => c k * (F i k * F j k)).

(* Kronecker product of A (p x p blocks) with B (q x q): index i = a*q + b *)
Definition kprod (q : nat) (A B : M) : M :=
  fun i j => A (i / q)%nat (j / q)%nat * B (i mod q)%nat (j mod q)%nat.

(* ---- kernels with a finite feature map, as the code computes them ----------------------- *)
(* LinearKernel: (x1 * sqrt v) (x2 * sqrt v)^T = sum_l v_l x_il x_jl  (v = variance, ARD or not) *)
Definition k_linear (d : nat) (v : nat -> car) (X : M) : M := wgram d X v.
(* PolynomialKernel: (x1 x2^T + offset)^power *)
Definition k_poly (d : nat) (c : car) (p : nat) (X : M) : M :=
  hpow p (madd (gram d X) (mconst c)).
(* the same base matrix as a weighted Gram of the features [X | 1] with weights (1,..,1,c) *)
Definition poly_feat (d : nat) (X : M) : M := fun i k => if Nat.ltb k d then X i k else 1.
Definition poly_wts (d : nat) (c : car) : nat -> car := fun k => if Nat.ltb k d then 1 else c.
(* ConstantKernel *)
Definition k_const (c : car) : M := mconst c.
(* IndexKernel on the index list idx: (B B^T + diag v)[idx_i, idx_j] *)
Definition k_index_full (r : nat) (B : M) (v : nat -> car) : M := madd (gram r B) (mdiag v).
Definition k_index (r : nat) (B : M) (v : nat -> car) (idx : nat -> nat) : M :=
  gather idx idx (k_index_full r B v).
(* RFFKernel / SpectralDeltaKernel: z z^T / D with z = [cos(x w), sin(x w)] (any feature matrix Z) *)
Definition k_features (r : nat) (Z : M) (scale : car) : M := mscale scale (gram r Z).
(* ScaleKernel, AdditiveKernel, ProductKernel *)
Definition k_scale (s : car) (A : M) : M := mscale s A.
Definition k_sum (A B : M) : M := madd A B.
Definition k_prod (A B : M) : M := hadamard A B.
(* InducingPointKernel without the diagonal correction: K_xz K_zz^-1 K_zx *)
Definition k_inducing (m : nat) (Kxz Kzz_inv : M) : M := mmul m (mmul m Kxz Kzz_inv) (mT Kxz).

(* ---- the exact posterior, on explicit blocks -------------------------------------------- *)
(* explained covariance  X A^-1 X^T  (X = K*x : t x n) and the posterior  K** - X A^-1 X^T *)
Definition explained (n : nat) (X Ainv : M) : M := mmul n X (mmul n Ainv (mT X)).
Definition post_cov_g (n : nat) (Kss X Ainv : M) : M := msub Kss (explained n X Ainv).
(* what one more block of m observations explains in addition:  W C^-1 W^T,  W = Y - X Q *)
Definition extra_cross (n : nat) (X Y Q : M) : M := msub Y (mmul n X Q).
Definition extra_explained (n m : nat) (X Y Q Cinv : M) : M :=
  explained m (extra_cross n X Y Q) Cinv.
(* joint covariance of (observations y, test values f_star): the prior plus the noise on the train block *)
Definition joint_obs (n : nat) (KJ S : M) : M :=
  fun i j => KJ i j + (if Nat.ltb i n && Nat.ltb j n then S i j else 0).

(* ---- observation_nan_policy('fill') (exact_prediction_strategies.py, exact_predictive_covar) ------------
   missing observations are DECOUPLED: rows / columns of the train-train matrix that belong to a missing
   observation are zeroed with the diagonal kept, and their columns of the test-train matrix are zeroed.
   [obs i = true] iff observation i is present. *)
Definition decouple (obs : nat -> bool) (J : M) : M :=
  fun i j => if Nat.eqb i j then J i j else if obs i && obs j then J i j else 0.
Definition fill_cross (obs : nat -> bool) (X : M) : M := fun i j => if obs j then X i j else 0.
Definition fill_post_cov (n : nat) (obs : nat -> bool) (Kss X A Ainv' : M) : M :=
  post_cov_g n Kss (fill_cross obs X) Ainv'.   (* Ainv' : any inverse of [decouple obs A] *)
(* observation_nan_policy('mask'): the observed rows are selected (idx enumerates them, k of them) *)
Definition mask_post_cov (k : nat) (idx : nat -> nat) (Kss X Ainv' : M) : M :=
  post_cov_g k Kss (fun i a => X i (idx a)) Ainv'.   (* Ainv' : any inverse of [gather idx idx A] *)

(* whitened variational predictive covariance (variational_strategy.py):
   K** + A^T (S - I) A  with A = L^-1 K_z*  given as the t x m matrix At = A^T *)
Definition var_cov (m : nat) (Kss At Sw : M) : M :=
  madd Kss (mmul m (mmul m At (msub Sw mI)) (mT At)).

End Psd.

(* ---- order-dependent pieces over Qc (executable) ---------------------------------------- *)
Definition Qc_leb (a b : Qc) : bool := Qle_bool (this a) (this b).
Definition Qc_max (a b : Qc) : Qc := if Qc_leb a b then b else a.

(* MultivariateNormal.variance: diag clamped below at settings.min_variance *)
Definition variance_clamp (mv : Qc) (diag : list Qc) : list Qc := map (fun d => Qc_max d mv) diag.
(* FixedGaussianNoise.__init__: noise.clamp_min(settings.min_fixed_noise) *)
Definition fixed_noise_clamp (mn : Qc) (noise : list Qc) : list Qc := map (fun d => Qc_max d mn) noise.
(* _HomoskedasticNoiseBase.noise = raw_noise_constraint.transform(raw_noise), GreaterThan(lb) *)
Definition noise_e (lb raw : Qc) : expr := transform_e (CGreater lb) (EConst raw).

(* PSD certificate.  The caller supplies ANY matrix Lf (the driver: a float64 Cholesky factor of the
   implementation's matrix, rounded to dyadic rationals).  The model forms the remainder
   R = A - Lf Lf^T, writes it as a weighted Gram matrix  sum_k c_k f_k f_k^T  with
     f_i = e_i,            c_i  = R_ii - sum_{j<>i} |R_ij|          (diagonal dominance margin)
     f_ij = e_i +- e_j,    c_ij = |R_ij|   (i < j, sign of R_ij)
   and CHECKS exactly that A = Lf Lf^T + F diag(c) F^T and c >= 0.  No division, so dyadic inputs
   stay dyadic.  Soundness (Proofs/C07_psd.v): a Gram matrix plus a non-negatively weighted Gram
   matrix is PSD. *)
Definition Qc_abs (a : Qc) : Qc := if Qc_leb 0%Qc a then a else (- a)%Qc.

Definition dd_feat (n : nat) (R : @M QcF) : @M QcF := fun a k =>
  if Nat.ltb k n then (if Nat.eqb a k then 1%Qc else 0%Qc)
  else let p := (k - n)%nat in let i := (p / n)%nat in let j := (p mod n)%nat in
       if Nat.ltb i j then
         (if Nat.eqb a i then 1%Qc
          else if Nat.eqb a j then (if Qc_leb 0%Qc (R i j) then 1%Qc else (- (1))%Qc) else 0%Qc)
       else 0%Qc.

Definition dd_wts (n : nat) (R : @M QcF) : nat -> @car QcF := fun k =>
  if Nat.ltb k n then
    (R k k - @sum QcF n (fun j => if Nat.eqb j k then 0%Qc else Qc_abs (R k j)))%Qc
  else let p := (k - n)%nat in let i := (p / n)%nat in let j := (p mod n)%nat in
       if Nat.ltb i j then Qc_abs (R i j) else 0%Qc.

Definition psd_cert (n : nat) (A Lf : @M QcF) : bool :=
  let G := @mat QcF n n (@gram QcF n Lf) in
  let R := @mat QcF n n (@msub QcF A G) in
  let r := (n + n * n)%nat in
  let cl := map (dd_wts n R) (seq 0 r) in
  let c : nat -> @car QcF := fun k => nth k cl 0%Qc in
  let F := @mat QcF n r (dd_feat n R) in
  meqb n n A (@madd QcF G (@wgram QcF r F c)) && forallb (fun k => Qc_leb 0%Qc (c k)) (seq 0 r).

(* ---- executable jobs -------------------------------------------------------------------- *)
Inductive job : Type :=
| JPsd (n : nat) (rows : list (list Qc)) (shift : Qc) (lf : list (list Qc))
    (* is rows symmetric and rows + shift*I PSD (certificate hint lf) ? *)
| JClamp (mv : Qc) (diag : list Qc)
| JFixedNoise (mn : Qc) (noise : list Qc)
| JNoise (lb raw : Qc).

Definition run_job (j : job) : list Z :=
  match j with
  | JPsd n rows shift lf =>
      let A : @M QcF := @of_list QcF rows in
      let B := @mat QcF n n (@madd QcF A (@mscale QcF shift (@mI QcF))) in
      [ (if meqb n n A (@mT QcF A) then 1 else 0)%Z ;
        (if psd_cert n B (@of_list QcF lf) then 1 else 0)%Z ]
  | JClamp mv diag => flat_map ser_qc (variance_clamp mv diag)
  | JFixedNoise mn noise => flat_map ser_qc (fixed_noise_clamp mn noise)
  | JNoise lb raw => ser_expr (noise_e lb raw)
  end.
