(* C04 model: the fantasy (bordered / Schur-complement) update of the prediction caches as
   DefaultPredictionStrategy.get_fantasy_strategy computes it
   (gpytorch/models/exact_prediction_strategies.py:119-244) and the root / inverse-root update of
   LinearOperator.cat_rows that it calls.  Generic over the scalar field; definitions only.

   Data layout ("world"): one joint prior on [X_0; X_f1; ...; X_fk; X*] (covariance KJ, mean muJ
   as a column), one noise operator S on all N = n0 + m1 + ... + mk training rows, targets y on
   those rows.  The train covariance of the first n rows is the n x n corner of
   A := Kxx + S  (C01's [train_covar KJ S]); conditioning on more data = a larger corner. *)
From Coq Require Import Arith List ZArith QArith Qcanon.
From GPV Require Import Base.LinAlg Base.Exec Models.C01_posterior.
Import ListNotations.

Section Fantasy.
Context {K : Fld}.
Local Open Scope fld_scope.

(* ---- one update, on explicit blocks ---------------------------------------------------- *)
(* fant_solve = K_inverse.matmul(fant_train_covar^T);   Q = A^-1 U^T   (n x m) *)
Definition fant_solve (n : nat) (Ainv Ut : M) : M := mmul n Ainv Ut.
(* the code's K_inverse is RootLinearOperator(R), i.e. (R R^T) *)
Definition fant_solve_root (n r : nat) (R Ut : M) : M := mmul r R (mmul n (mT R) Ut).
(* schur_complement = fant_fant_covar - fant_train_covar @ fant_solve   (m x m) *)
Definition schur (n : nat) (U Q Sf : M) : M := msub Sf (mmul n U Q).
(* small_system_rhs = targets - fant_mean - fant_train_covar @ mean_cache *)
Definition small_rhs (n : nat) (U alpha rf : M) : M := msub rf (mmul n U alpha).
(* fant_cache_lower = cholesky_solve(small_system_rhs, chol(schur)) = C^-1 rhs *)
Definition fant_lower (n m : nat) (U Cinv alpha rf : M) : M :=
  mmul m Cinv (small_rhs n U alpha rf).
(* fant_cache_upper = mean_cache - fant_solve @ fant_cache_lower *)
Definition fant_upper (n m : nat) (U Q Cinv alpha rf : M) : M :=
  msub alpha (mmul m Q (fant_lower n m U Cinv alpha rf)).
(* fant_mean_cache = cat(upper, lower) *)
Definition fant_mean_cache (n m : nat) (U Q Cinv alpha rf : M) : M :=
  vstack n (fant_upper n m U Q Cinv alpha rf) (fant_lower n m U Cinv alpha rf).

(* the bordered matrix [[A, U^T],[U, S_f]] *)
Definition bordered (n : nat) (A Ut U Sf : M) : M := blk n n A Ut U Sf.

(* inverse of the bordered matrix from A^-1 and C^-1 (Q = A^-1 U^T, P = U A^-1) *)
Definition bordered_inv (n m : nat) (Ainv U Ut Cinv : M) : M :=
  let Q := mmul n Ainv Ut in
  let P := mmul n U Ainv in
  blk n n (madd Ainv (mmul m Q (mmul m Cinv P))) (mopp (mmul m Q Cinv))
          (mopp (mmul m Cinv P)) Cinv.

(* ---- root / inverse-root update (linear_operator cat_rows, called at line 212) ----------
   old root E (E E^T = A), old inverse root R (= E^-T), cross block U, new block S_f:
   F = U R,  G G^T = S_f - F F^T,  new root Z = [[E,0],[F,G]],
   new inverse root = (Z^-1)^T = [[R, -R F^T G^-T],[0, G^-T]]  *)
Definition root_lower_left (n : nat) (U R : M) : M := mmul n U R.
Definition root_schur (n : nat) (Sf F : M) : M := msub Sf (mmul n F (mT F)).
Definition new_root (n : nat) (E F G : M) : M := blk n n E mzero F G.
Definition new_inv_root (n m : nat) (R F Ginv : M) : M :=
  blk n n R (mopp (mmul m (mmul n R (mT F)) (mT Ginv))) mzero (mT Ginv).

(* ---- prediction from carried caches (exact_predictive_mean / exact_predictive_covar) ---- *)
Definition post_mean_from_cache (N : nat) (KJ muJ alpha : M) : M :=
  madd (mmul N (Ksx N KJ) alpha) (sub N 0 muJ).

(* ---- the world and the iterated update ------------------------------------------------- *)
Definition resid (muJ y : M) : M := msub y (sub 0 0 muJ).        (* y - m on all train rows *)

(* state carried by a prediction strategy: (number of train rows, A_n^-1, mean cache) *)
Definition fstate : Type := (nat * M * M)%type.

(* [inv] is the solve oracle (m, C) |-> C^-1 : theorems assume only that what it returns is
   an inverse; the executable instance is the certificate-checked [inv_checked]. *)
(* the same two formulas with every intermediate product evaluated once ([mat] is the identity
   up to [meq]; it only forces evaluation under vm_compute, as the code's eager tensors do) *)
Definition fant_mean_cache_staged (n m : nat) (U Q Cinv alpha rf : M) : M :=
  let b := mat m 1 (fant_lower n m U Cinv alpha rf) in
  vstack n (msub alpha (mmul m Q b)) b.
Definition bordered_inv_staged (n m : nat) (Ainv Q P Cinv : M) : M :=
  let X := mat m n (mmul m Cinv P) in
  let W := mat n m (mmul m Q Cinv) in
  blk n n (madd Ainv (mmul m Q X)) (mopp W) (mopp X) Cinv.

Definition fantasy_step (inv : nat -> M -> option M) (KJ S r : M) (st : fstate) (m : nat)
  : option fstate :=
  let '(n, Ainv, alpha) := st in
  let A := train_covar KJ S in
  let U := mat m n (sub n 0 A) in let Ut := mat n m (sub 0 n A) in let Sf := sub n n A in
  let Q := mat n m (fant_solve n Ainv Ut) in
  let P := mat m n (mmul n U Ainv) in
  let C := mat m m (schur n U Q Sf) in
  match inv m C with
  | None => None
  | Some Cinv =>
      Some ((n + m)%nat,
            mat (n + m) (n + m) (bordered_inv_staged n m Ainv Q P Cinv),
            mat (n + m) 1 (fant_mean_cache_staged n m U Q Cinv alpha (sub n 0 r)))
  end.

Fixpoint fantasy_fold (inv : nat -> M -> option M) (KJ S r : M) (st : fstate) (ms : list nat)
  : option fstate :=
  match ms with
  | [] => Some st
  | m :: rest =>
      match fantasy_step inv KJ S r st m with
      | None => None
      | Some st' => fantasy_fold inv KJ S r st' rest
      end
  end.

(* the source model's strategy: conditioning on the first n0 rows from scratch *)
Definition fantasy_init (inv : nat -> M -> option M) (KJ S r : M) (n0 : nat) : option fstate :=
  match inv n0 (mat n0 n0 (train_covar KJ S)) with
  | None => None
  | Some Ainv => Some (n0, Ainv, mat n0 1 (mmul n0 Ainv r))
  end.

End Fantasy.

(* ---- source frame: what get_fantasy_model does to the object it is called on -----------
   ExactGP.get_fantasy_model temporarily sets four attributes of the source to None, deep-copies,
   and restores them; get_fantasy_strategy writes two scratch attributes (fantasy_inputs /
   fantasy_targets) on the source strategy.  [T] is any type of attribute values. *)
Record gp_obj (T : Type) : Type := mk_gp {
  o_strategy : option T; o_inputs : option T; o_targets : option T; o_lik : option T;
  o_params : T;
  o_scratch : option T            (* strategy.fantasy_inputs / fantasy_targets *)
}.
Arguments mk_gp {T}. Arguments o_strategy {T}. Arguments o_inputs {T}. Arguments o_targets {T}.
Arguments o_lik {T}. Arguments o_params {T}. Arguments o_scratch {T}.

Definition get_fantasy_model_obj {T} (upd : T -> T -> T -> T) (newlik : T -> T -> T)
  (src : gp_obj T) (fin ftg : T) (full_in full_tg : T) : gp_obj T * option (gp_obj T) :=
  match o_strategy src, o_lik src with
  | Some strat, Some lik =>
      (* old_* := self.*; self.* := None; new_model = deepcopy(self); self.* := old_* *)
      let nulled := mk_gp None None None None (o_params src) (o_scratch src) in
      let copy := nulled in
      let restored := mk_gp (Some strat) (o_inputs src) (o_targets src) (Some lik)
                            (o_params nulled) (Some fin) in
      (restored,
       Some (mk_gp (Some (upd strat fin ftg)) (Some full_in) (Some full_tg)
                   (Some (newlik lik fin)) (o_params copy) None))
  | _, _ => (src, None)
  end.


(* ---- executable instance ---------------------------------------------------------------- *)
Definition inv_oracle (m : nat) (C : @M QcF) : option (@M QcF) := inv_checked m C.

(* states after each successive update (the strategies of fantasy model 1, 2, ..., k) *)
Fixpoint fantasy_trace {K : Fld} (inv : nat -> M -> option M) (KJ S r : M) (st : fstate)
  (ms : list nat) : list (option fstate) :=
  match ms with
  | [] => []
  | m :: rest =>
      match fantasy_step inv KJ S r st m with
      | None => [None]
      | Some st' => Some st' :: fantasy_trace inv KJ S r st' rest
      end
  end.

(* case = (n0, [m1;..;mk], t, KJ rows ((N+t) x (N+t)), muJ (N+t), S rows (N x N), y (N))
   The joint prior has the t test rows LAST; the model needs, for a prefix of size n, the test
   block relative to that prefix, so the test rows are addressed through [gather].
   result: 0 if the source solve failed, else 1 :: then for each of the k updates either 0 or
   1 :: n :: alpha (n) ++ Ainv (n x n) ++ posterior mean (t) ++ posterior cov (t x t),
   computed from the state reached after that update *)
Definition test_view (n Ntot : nat) (A : @M QcF) : @M QcF :=
  gather (fun i => if Nat.ltb i n then i else (Ntot + (i - n))%nat)
         (fun j => if Nat.ltb j n then j else (Ntot + (j - n))%nat) A.
Definition test_view_vec (n Ntot : nat) (v : @M QcF) : @M QcF :=
  gather (fun i => if Nat.ltb i n then i else (Ntot + (i - n))%nat) (fun j => j) v.

(* C01's post_cov with the solve evaluated once *)
Definition post_cov_staged {K : Fld} (n t : nat) (KJ Ainv : M) : M :=
  let V := mat n t (mmul n Ainv (mT (Ksx n KJ))) in
  msub (Kss n KJ) (mmul n (Ksx n KJ) V).

Definition ser_state (t Ntot : nat) (KJ muJ : @M QcF) (o : option (@fstate QcF)) : list Z :=
  match o with
  | None => [0%Z]
  | Some (n, Ainv, alpha) =>
      let KJn := mat (n + t) (n + t) (test_view n Ntot KJ) in
      let muJn := mat (n + t) 1 (test_view_vec n Ntot muJ) in
      1%Z :: Z.of_nat n :: ser_mat n 1 alpha ++ ser_mat n n Ainv
          ++ ser_mat t 1 (post_mean_from_cache n KJn muJn alpha)
          ++ ser_mat t t (post_cov_staged n t KJn Ainv)
  end.

Definition run_fantasy
  (c : nat * list nat * nat * list (list Qc) * list Qc * list (list Qc) * list Qc) : list Z :=
  let '(n0, ms, t, kj, mu, s, y) := c in
  let KJ := of_list kj in let muJ := vec_of_list mu in
  let S := of_list s in let Y := vec_of_list y in
  let Ntot := (n0 + list_sum ms)%nat in
  let r := resid muJ Y in
  match fantasy_init inv_oracle KJ S r n0 with
  | None => [0%Z]
  | Some st0 =>
      1%Z :: ser_state t Ntot KJ muJ (Some st0)
          ++ flat_map (ser_state t Ntot KJ muJ) (fantasy_trace inv_oracle KJ S r st0 ms)
  end.
