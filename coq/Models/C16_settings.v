(* C16 model, part 2: a HISTORY OF CALLS on one eval-mode model object under changing settings:
   observation_nan_policy in {'ignore', 'mask', 'fill'} and fast_pred_var on / off
   (gpytorch/models/exact_prediction_strategies.py: mean_cache / _mean_cache memoised per policy
   string, covar_cache memoised once, exact_predictive_covar reading the ACTIVE policy and the
   NaN pattern of the training labels at every call).  Definitions only. *)
From Coq Require Import Arith List Bool.
From GPV Require Import Base.LinAlg Models.C01_posterior Models.C16_missing.
Import ListNotations.

Section Settings.
Context {K : Fld}.
Local Open Scope fld_scope.

(* the settings active during one call; cs_policy = None is the default 'ignore' *)
Record call_settings := { cs_policy : option policy; cs_fpv : bool }.

(* state of the prediction strategy: the _mean_cache memo for 'mask' / 'fill' (C16_missing.memo),
   the memo entry for 'ignore', and whether covar_cache (fast_pred_var) has been computed *)
Record pstate := { ps_memo : memo; ps_ignore : option nvec; ps_covar_cache : bool }.
Definition pstate_empty : pstate := {| ps_memo := memo_empty; ps_ignore := None; ps_covar_cache := false |}.

(* _mean_cache('ignore'): the plain solve; a NaN in the right-hand side makes every entry NaN *)
Definition mean_cache_ignore (n : nat) (Ainv : M) (r : nvec) : nvec :=
  if has_missing n r then (fun _ => None)
  else let x := mmul n Ainv (vals 0 r) in fun i => Some (x i O).

(* exact_predictive_mean('ignore'): test_train_covar @ mean_cache + test_mean; None = NaNs *)
Definition pred_mean_ignore (n : nat) (TT tm : M) (mc : nvec) : option M :=
  if has_missing n mc then None else Some (madd (mmul n TT (vals 0 mc)) tm).

(* exact_predictive_covar under the active settings: 'ignore' never looks at the labels (C01's
   formula on the full train covariance; with fast_pred_var through covar_cache, which equals it
   for any root: C01 cov_root_correct); under a NaN policy [pred_cov] (has_missing dispatch, the
   exact solve whenever a target is missing, whatever fast_pred_var says) *)
Definition call_cov (n : nat) (KJ Ainv Aoinv Afinv : M) (y : nvec) (s : call_settings) : M :=
  match cs_policy s with
  | None => post_cov n KJ Ainv
  | Some p => pred_cov n p KJ Ainv Aoinv Afinv y
  end.

(* one call of the model on test inputs under settings s on a model whose prediction strategy is in state st:
   new state, posterior mean (None = NaNs) and posterior covariance *)
Definition call (n : nat) (KJ Ainv Aoinv Afinv TT tm : M) (y r : nvec) (fv : car)
  (st : pstate) (s : call_settings) : pstate * (option M * M) :=
  let cc := ps_covar_cache st || cs_fpv s in
  let cov := call_cov n KJ Ainv Aoinv Afinv y s in
  match cs_policy s with
  | Some p =>
      let '(m', mean) := predict_step n Aoinv Afinv TT tm r fv (ps_memo st) p in
      ({| ps_memo := m'; ps_ignore := ps_ignore st; ps_covar_cache := cc |}, (Some mean, cov))
  | None =>
      let mc := match ps_ignore st with Some c => c | None => mean_cache_ignore n Ainv r end in
      ({| ps_memo := ps_memo st; ps_ignore := Some mc; ps_covar_cache := cc |},
       (pred_mean_ignore n TT tm mc, cov))
  end.

Definition call_history (n : nat) (KJ Ainv Aoinv Afinv TT tm : M) (y r : nvec) (fv : car)
  (h : list call_settings) : pstate :=
  fold_left (fun st s => fst (call n KJ Ainv Aoinv Afinv TT tm y r fv st s)) h pstate_empty.

(* NOT the code (a reading the property excludes): the NaN mask used by the covariance is
   memoised at the first call, whatever policy was active then (None under 'ignore'), and reused
   by every later call *)
Definition call_cov_memoised_mask (n : nat) (KJ Ainv Aoinv Afinv : M) (y : nvec)
  (first s : call_settings) : M :=
  match cs_policy s with
  | None => post_cov n KJ Ainv
  | Some p => match cs_policy first with
              | None => post_cov n KJ Ainv
              | Some _ => pred_cov n p KJ Ainv Aoinv Afinv y
              end
  end.

End Settings.

(* ---- executable instance.  case as for run_fill; result: 0 if one of the three inversions fails its
   certificate, else 1; then for p = mask, fill: the mean (t) and covariance (t*t) of a call under
   p (fast_pred_var off) after the history [ignore; fill + fast_pred_var; ignore + fast_pred_var]
   (a NaN mean would print the single entry 0 and make the lengths disagree) *)
From Coq Require Import ZArith QArith Qcanon.
From GPV Require Import Base.Exec.

Definition run_settings
  (c : nat * nat * list (list Qc) * list Qc * list (list Qc) * list (option Qc) * Qc) : list Z :=
  let '(n, t, kj, mu, s, yl, fv) := c in
  let KJ : @M QcF := @of_list QcF kj in let muJ : @M QcF := @vec_of_list QcF mu in
  let S : @M QcF := @of_list QcF s in let y := nvec_of_list yl in
  let A : @M QcF := train_covar KJ S in
  let r := offset muJ y in
  let ob := is_obs y in
  let k := nobs n ob in
  match inv_checked k (mat k k (masked n n ob ob A)), inv_checked n (mat n n (fill_kernel ob A)),
        inv_checked n (mat n n A) with
  | Some Aoinv, Some Afinv, Some Ainv =>
      let TT := mat t n (Ksx n KJ) in let tm := sub n 0 muJ in
      let h := [ {| cs_policy := None; cs_fpv := false |}; {| cs_policy := Some PFill; cs_fpv := true |};
                 {| cs_policy := None; cs_fpv := true |} ] in
      let st := call_history n KJ Ainv Aoinv Afinv TT tm y r fv h in
      let out p := snd (call n KJ Ainv Aoinv Afinv TT tm y r fv st {| cs_policy := Some p; cs_fpv := false |}) in
      let ser p := match fst (out p) with Some m => ser_mat t 1 m | None => [0%Z] end ++ ser_mat t t (snd (out p)) in
      1%Z :: ser PMask ++ ser PFill
  | _, _, _ => [0%Z]
  end.
