(* C13 model: the one-dimensional Gauss-Hermite rule of gpytorch/utils/quadrature.py
   (GaussHermiteQuadrature1D.forward, lines 68-87), polynomials as coefficient lists, the
   normal moment functional, and the documented formulas of the non-Gaussian likelihoods as
   [expr] terms.  Definitions only (generic over the scalar field where numeric). *)
From Coq Require Import Arith List ZArith QArith Qcanon Reals Ascii String DecimalString.
From GPV Require Import Base.LinAlg Base.Exec Base.Expr.
Import ListNotations.

Section GH.
Context {K : Fld}.
Local Open Scope fld_scope.

(* polynomial c0 + c1 x + c2 x^2 + ... as the list [c0; c1; c2; ...] *)
Fixpoint peval (p : list car) (x : car) : car :=
  match p with
  | [] => 0
  | c :: q => c + x * peval q x
  end.

Fixpoint fpow (x : car) (k : nat) : car :=
  match k with O => 1 | S j => x * fpow x j end.

(* sum_i w_i f(t_i) over the node list (zip of locations and weights) *)
Fixpoint wsum (ts ws : list car) (f : car -> car) : car :=
  match ts, ws with
  | t :: ts', w :: ws' => w * f t + wsum ts' ws' f
  | _, _ => 0
  end.

(* the code: shifted_locs = s * locations + means with s = sqrt(2 variances);
   res = sum (func(shifted_locs) * weights)      [the factor 1/sqrt(pi) is applied by gh_rule] *)
Definition gh_core (ts ws : list car) (s m : car) (f : car -> car) : car :=
  wsum ts ws (fun t => f (s * t + m)).

(* GaussHermiteQuadrature1D._apply(fn) (quadrature.py:46-49; reached by .double() .float()
   .to(...) .cpu() .cuda()): locations := fn(locations); weights := fn(weights), fn elementwise
   (a dtype cast / device move of a tensor).  The module state is the pair (locations, weights). *)
Definition gh_apply (fn : car -> car) (q : list car * list car) : list car * list car :=
  (map fn (fst q), map fn (snd q)).
(* the plain sum of the weights (sqrt(pi) E[1] of the rule) *)
Fixpoint lsum (ws : list car) : car := match ws with [] => 0 | w :: r => w + lsum r end.

(* ---- polynomial arithmetic on coefficient lists *)
Fixpoint padd (p q : list car) : list car :=
  match p, q with
  | [], _ => q
  | _, [] => p
  | a :: p', b :: q' => (a + b) :: padd p' q'
  end.
Definition pscale (c : car) (p : list car) : list car := map (fun x => c * x) p.
Definition pshift (p : list car) : list car := 0 :: p.                   (* z * p(z) *)
Definition pmul_lin (a b : car) (q : list car) : list car :=             (* (b + a z) * q(z) *)
  padd (pscale b q) (pshift (pscale a q)).
(* p(a z + b) as a polynomial in z (Horner in the polynomial ring = binomial expansion) *)
Fixpoint pcomp_aff (p : list car) (a b : car) : list car :=
  match p with
  | [] => []
  | c :: p' => padd [c] (pmul_lin a b (pcomp_aff p' a b))
  end.

(* ---- moments.  E z^0 = 1, E z^1 = 0, E z^(k+2) = (k+1) E z^k  (standard normal) *)
Fixpoint nat2f (n : nat) : car := match n with O => 0 | S k => nat2f k + 1 end.
Fixpoint gmom_pair (k : nat) : car * car :=        (* (E z^k, E z^(k+1)) *)
  match k with
  | O => (1, 0)
  | S j => let '(a, b) := gmom_pair j in (b, nat2f (S j) * a)
  end.
Definition gmom (k : nat) : car := fst (gmom_pair k).

(* the moment functional extended linearly to polynomials in z: sum_k q_k E z^k *)
Fixpoint lmom_from (k : nat) (q : list car) : car :=
  match q with
  | [] => 0
  | c :: q' => c * gmom k + lmom_from (S k) q'
  end.
Definition lstd (q : list car) : car := lmom_from 0 q.

(* E_{x ~ N(m, sd^2)} p(x) := E_z p(m + sd z) *)
Definition normal_expect_sd (m sd : car) (p : list car) : car := lstd (pcomp_aff p sd m).

(* moments of N(m, v) by their own three-term recurrence (no square root needed):
   M_0 = 1, M_1 = m, M_(k+2) = m M_(k+1) + (k+1) v M_k *)
Fixpoint nmom_pair (m v : car) (k : nat) : car * car :=
  match k with
  | O => (1, m)
  | S j => let '(a, b) := nmom_pair m v j in (b, m * b + nat2f (S j) * v * a)
  end.
Definition nmom (m v : car) (k : nat) : car := fst (nmom_pair m v k).
Fixpoint nexp_from (m v : car) (k : nat) (p : list car) : car :=
  match p with
  | [] => 0
  | c :: p' => c * nmom m v k + nexp_from m v (S k) p'
  end.
Definition normal_expect_var (m v : car) (p : list car) : car := nexp_from m v 0 p.
(* the same sum in one pass: a = M_k, b = M_(k+1) are carried along *)
Fixpoint nexp_go (m v : car) (k : nat) (a b : car) (p : list car) : car :=
  match p with
  | [] => 0
  | c :: p' => c * a + nexp_go m v (S k) b (m * b + nat2f (S k) * v * a) p'
  end.
Definition normal_expect_var_fast (m v : car) (p : list car) : car := nexp_go m v 0 1 m p.

(* moments against the Hermite weight exp(-t^2), divided by sqrt(pi):
   h_0 = 1, h_1 = 0, h_(k+2) = (k+1)/2 h_k *)
Fixpoint hmom_pair (k : nat) : car * car :=
  match k with
  | O => (1, 0)
  | S j => let '(a, b) := hmom_pair j in (b, nat2f (S j) / (1 + 1) * a)
  end.
Definition hmom (k : nat) : car := fst (hmom_pair k).

(* ---- Beta likelihood parametrisation.  documented: alpha = m s, beta = (1 - m) s;
   the code (beta_likelihood.py forward): alpha = m s + 1, beta = s - alpha + 2 *)
Definition beta_alpha_doc (mix s : car) : car := mix * s.
Definition beta_beta_doc (mix s : car) : car := (1 - mix) * s.
Definition beta_alpha_code (mix s : car) : car := mix * s + 1.
Definition beta_beta_code (mix s : car) : car := s - beta_alpha_code mix s + (1 + 1).

End GH.

(* ---- the statement instance over R *)
Definition gh_rule (ts ws : list R) (m v : R) (f : R -> R) : R :=
  (1 / sqrt PI * @gh_core RF ts ws (sqrt (2 * v)) m f)%R.
Definition normal_expect (m v : R) (p : list R) : R := @normal_expect_sd RF m (sqrt v) p.

(* ---- the rule on [expr] integrands (nodes, weights, scale s = sqrt(2 v) and mean rational) *)
Fixpoint wsum_e (ts ws : list Qc) (f : Qc -> expr) : expr :=
  match ts, ws with
  | t :: ts', w :: ws' => eadd (emul (EConst w) (f t)) (wsum_e ts' ws' f)
  | _, _ => EConst 0%Qc
  end.
Definition gh_rule_e (ts ws : list Qc) (s m : Qc) (f : Qc -> expr) : expr :=
  EDiv (wsum_e ts ws (fun t => f (s * t + m)%Qc)) (ESqrt EPi).

(* ---- documented likelihood formulas as expr.  q* : rational inputs *)
Definition ec (q : Qc) : expr := EConst q.
Definition ehalf : expr := EConst (qc 1 2).
Definition e2 : expr := EConst (qc 2 1).
Definition e1 : expr := EConst 1%Qc.

(* Bernoulli / probit: p(Y = y | f) = Phi((2y - 1) f), y in {0, 1} *)
Definition bern_cond_prob1 (f : Qc) : expr := EPhi (ec f).                       (* .probs *)
Definition bern_cond_logp (y : Qc) (f : Qc) : expr :=
  ELog (EPhi (ec ((qc 2 1 * y - 1) * f)%Qc)).
(* analytic marginal: P(y = 1) = Phi(m / sqrt(1 + v)) *)
Definition bern_marg_prob1 (m v : Qc) : expr := EPhi (EDiv (ec m) (ESqrt (ec (1 + v)%Qc))).
Definition bern_log_marginal (y m v : Qc) : expr :=
  ELog (EPhi (EDiv (ec ((qc 2 1 * y - 1) * m)%Qc) (ESqrt (ec (1 + v)%Qc)))).
Definition log_phi (z : Qc) : expr := ELog (EPhi (ec z)).
(* d/dz log Phi(z) = phi(z) / Phi(z) *)
Definition dlog_phi (z : Qc) : expr :=
  EDiv (EDiv (EExp (ec (- (z * z) / qc 2 1)%Qc)) (ESqrt (EMul e2 EPi))) (EPhi (ec z)).

(* Laplace(loc = f, scale = b):  log p(y|f) = -log(2 b) - |y - f| / b,  b = sqrt(noise) *)
Definition laplace_scale (noise : Qc) : expr := ESqrt (ec noise).
Definition laplace_logp (noise y f : Qc) : expr :=
  ESub (ENeg (ELog (EMul e2 (laplace_scale noise))))
       (EDiv (EAbs (ec (y - f)%Qc)) (laplace_scale noise)).

(* StudentT(df = nu, loc = f, scale = sqrt(noise)) *)
Definition student_scale (noise : Qc) : expr := ESqrt (ec noise).
Definition student_logp (nu noise y f : Qc) : expr :=
  let sc := student_scale noise in
  let z := EDiv (ec (y - f)%Qc) sc in
  let nup1h := ec ((nu + 1) / qc 2 1)%Qc in
  ESub (ESub (ESub (ESub (ELgamma nup1h) (ELgamma (ec (nu / qc 2 1)%Qc)))
                   (EMul ehalf (ELog (EMul (ec nu) EPi))))
             (ELog sc))
       (EMul nup1h (ELog (EAdd e1 (EDiv (EMul z z) (ec nu))))).

(* Beta(alpha, beta) with mixture sigmoid(f) and scale s; [off] = 0 is the documented
   parametrisation alpha = m s, beta = (1 - m) s; [off] = 1 is alpha = m s + 1, beta = (1-m) s + 1 *)
Definition esigmoid (f : Qc) : expr := EDiv e1 (EAdd e1 (EExp (ec (- f)%Qc))).
Definition beta_alpha (off s f : Qc) : expr := EAdd (EMul (esigmoid f) (ec s)) (ec off).
Definition beta_beta (off s f : Qc) : expr :=
  EAdd (EMul (ESub e1 (esigmoid f)) (ec s)) (ec off).
Definition beta_logp (off s y f : Qc) : expr :=
  let a := beta_alpha off s f in let b := beta_beta off s f in
  ESub (EAdd (EMul (ESub a e1) (ELog (ec y))) (EMul (ESub b e1) (ELog (ec (1 - y)%Qc))))
       (ESub (EAdd (ELgamma a) (ELgamma b)) (ELgamma (EAdd a b))).

(* Softmax: Categorical(logits = W f): p_c = exp(l_c) / sum_j exp(l_j), l = W f (or f) *)
Definition dotq (r f : list Qc) : Qc :=
  fold_right (fun p acc => (fst p * snd p + acc)%Qc) 0%Qc (combine r f).
Definition softmax_logits (W : option (list (list Qc))) (f : list Qc) : list Qc :=
  match W with None => f | Some rows => map (fun r => dotq r f) rows end.
Definition softmax_probs (W : option (list (list Qc))) (f : list Qc) : list expr :=
  let l := softmax_logits W f in
  let z := fold_right (fun x acc => EAdd (EExp (ec x)) acc) (EConst 0%Qc) l in
  map (fun x => EDiv (EExp (ec x)) z) l.

(* ---- executable wrappers: rationals in, list Z out *)

(* Coq prints a large Z through a Gallina-level decimal conversion that is far slower than
   vm_compute; results made of large numbers are therefore returned as decimal strings *)
Definition zstr (z : Z) : string := NilZero.string_of_int (Z.to_int z).
Definition strs (l : list Z) : list string := map zstr l.

(* exact node sum of the rule for a polynomial integrand; the harness divides by sqrt(pi) *)
Definition run_rule_poly (c : list Qc * list Qc * Qc * Qc * list Qc) : list Z :=
  let '(ts, ws, s, m, p) := c in
  ser_expr (EDiv (EConst (@gh_core QcF ts ws s m (@peval QcF p))) (ESqrt EPi)).

(* E_{N(m, sd^2)} p by the moment functional (binomial form) and by the recurrence in v = sd^2 *)
Definition run_expect (c : Qc * Qc * list Qc) : list Z :=
  let '(m, sd, p) := c in
  let a := @normal_expect_sd QcF m sd p in
  let b := @normal_expect_var_fast QcF m (sd * sd)%Qc p in
  (if Qc_eqb a b then 1%Z else 0%Z) :: ser_qc a.
Definition run_expect_var (c : Qc * Qc * list Qc) : list Z :=
  let '(m, v, p) := c in ser_qc (@normal_expect_var_fast QcF m v p).

(* Hermite-weight moments h_k, k < D (premise oracle for the harness) *)
Definition run_hmom (D : nat) : list Z := flat_map (fun k => ser_qc (@hmom QcF k)) (seq 0 D).

(* likelihood formulas: tag-dispatched.  tags:
   1 bern cond prob1 [f]            2 bern cond logp [y; f]      3 bern marginal prob1 [m; v]
   4 bern log_marginal [y; m; v]    5 log Phi [z]                6 dlog Phi [z]
   7 laplace scale [noise]          8 laplace logp [noise; y; f]
   9 student scale [noise]         10 student logp [nu; noise; y; f]
  11 beta alpha,beta [off; s; f]   12 beta logp [off; s; y; f] *)
Definition nthq (l : list Qc) (i : nat) : Qc := nth i l 0%Qc.
Definition run_formula (c : Z * list Qc) : list Z :=
  let '(tag, a) := c in
  match tag with
  | 1%Z => ser_expr (bern_cond_prob1 (nthq a 0))
  | 2%Z => ser_expr (bern_cond_logp (nthq a 0) (nthq a 1))
  | 3%Z => ser_expr (bern_marg_prob1 (nthq a 0) (nthq a 1))
  | 4%Z => ser_expr (bern_log_marginal (nthq a 0) (nthq a 1) (nthq a 2))
  | 5%Z => ser_expr (log_phi (nthq a 0))
  | 6%Z => ser_expr (dlog_phi (nthq a 0))
  | 7%Z => ser_expr (laplace_scale (nthq a 0))
  | 8%Z => ser_expr (laplace_logp (nthq a 0) (nthq a 1) (nthq a 2))
  | 9%Z => ser_expr (student_scale (nthq a 0))
  | 10%Z => ser_expr (student_logp (nthq a 0) (nthq a 1) (nthq a 2) (nthq a 3))
  | 11%Z => ser_expr (beta_alpha (nthq a 0) (nthq a 1) (nthq a 2))
             ++ ser_expr (beta_beta (nthq a 0) (nthq a 1) (nthq a 2))
  | 12%Z => ser_expr (beta_logp (nthq a 0) (nthq a 1) (nthq a 2) (nthq a 3))
  | _ => []
  end.

Definition run_softmax (c : option (list (list Qc)) * list Qc) : list Z :=
  let '(W, f) := c in flat_map ser_expr (softmax_probs W f).

(* the rule applied to a documented log-density (expected_log_prob) or density (log_marginal):
   kind: 2 bernoulli logp [y], 8 laplace [noise; y], 10 student [nu; noise; y],
         12 beta [off; s; y];  islog = false: integrand exp(logp) and the result is its log *)
Definition logp_of (kind : Z) (a : list Qc) (f : Qc) : expr :=
  match kind with
  | 2%Z => bern_cond_logp (nthq a 0) f
  | 8%Z => laplace_logp (nthq a 0) (nthq a 1) f
  | 10%Z => student_logp (nthq a 0) (nthq a 1) (nthq a 2) f
  | 12%Z => beta_logp (nthq a 0) (nthq a 1) (nthq a 2) f
  | _ => EConst 0%Qc
  end.
Definition run_rule_lik (c : Z * bool * list Qc * list Qc * list Qc * Qc * Qc) : list Z :=
  let '(kind, islog, a, ts, ws, s, m) := c in
  if islog then ser_expr (gh_rule_e ts ws s m (logp_of kind a))
  else ser_expr (ELog (gh_rule_e ts ws s m (fun f => EExp (logp_of kind a f)))).
