(* C08 model, part 4: obtaining element b of a batched object THROUGH the library's own indexing
   (LazyEvaluatedKernelTensor.__getitem__ / MultivariateNormal.__getitem__ with a PARTIAL batch index)
   and list wrappers called with keyword arguments.  Definitions only. *)
From Coq Require Import Arith List Bool ZArith.
From GPV Require Import Models.C08_shape.
Import ListNotations.

Section Index.
Context {P D O : Type}.

(* X[i] for an index i of the first |i| batch dimensions: a view *)
Definition pindex {T : Type} (f : index -> T) (i : index) : index -> T := fun b => f (i ++ b).
(* an operand of batch shape s seen through expand(t) / Kernel.expand_batch(t) *)
Definition expanded {T : Type} (s : shape) (f : index -> T) : index -> T := fun b => f (bproj s b).

(* the lazily evaluated kernel tensor (parameters of batch shape sp, inputs of batch shape sd, broadcast
   batch t) indexed by i: the inputs AND the kernel's parameters are indexed (both brought to t first);
   the result is a lazy object whose operands both have batch shape skipn |i| t *)
Definition lazy_index (sp sd t : shape) (op : P -> D -> O) (param : index -> P) (data : index -> D)
           (i : index) : index -> O :=
  let t' := skipn (length i) t in
  batched t' t' op (pindex (expanded sp param) i) (pindex (expanded sd data) i).
Definition lazy_index_shape (t : shape) (i : index) : shape := skipn (length i) t.

(* the defective variant: inputs indexed, kernel parameters left alone *)
Definition lazy_index_data_only (sp sd t : shape) (op : P -> D -> O) (param : index -> P) (data : index -> D)
           (i : index) : index -> O :=
  let t' := skipn (length i) t in
  batched sp t' op param (pindex (expanded sd data) i).
Definition lazy_index_data_only_shape (sp t : shape) (i : index) : option shape :=
  broadcast_shapes sp (skipn (length i) t).
End Index.

(* ---- list wrappers with keyword arguments: every member receives its own positional argument and the
   SAME keyword arguments (IndependentModelList.__call__ / forward, LikelihoodList.__call__ / forward /
   expected_log_prob); with `noise=[..]` member i additionally receives entry i *)
Section ListsKw.
Context {A KW B : Type}.
Fixpoint model_list_kw (ms : list (A -> KW -> B)) (xs : list A) (kw : KW) : list B :=
  match ms, xs with
  | m :: ms', x :: xs' => m x kw :: model_list_kw ms' xs' kw
  | _, _ => []
  end.
Context {NZ : Type}.
Fixpoint model_list_kw_noise (ms : list (A -> KW -> NZ -> B)) (xs : list A) (kw : KW) (nz : list NZ) : list B :=
  match ms, xs, nz with
  | m :: ms', x :: xs', n :: nz' => m x kw n :: model_list_kw_noise ms' xs' kw nz'
  | _, _, _ => []
  end.
(* the defective wrapper: keyword arguments not forwarded, members run with their defaults *)
Definition model_list_kw_dropped (dflt : KW) (ms : list (A -> KW -> B)) (xs : list A) (kw : KW) : list B :=
  model_list_kw ms xs dflt.
End ListsKw.
