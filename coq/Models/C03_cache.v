(* C03 model: the prediction caches of a GP object as a state machine over histories.

   What is modelled (sources in /repo/gpytorch):
     - ExactGP.prediction_strategy  (models/exact_gp.py:82,98-100,148,309-321)      slot STRAT
     - @cached mean_cache / covar_cache of the strategy (exact_prediction_strategies.py)
                                                                                  slots MEAN, COVAR
     - WISKI caches interp_inner_prod / interp_response_cache                      slot WISKI
     - kernel module caches _cached_kernel_mat / _cached_kernel_inv_root
       (kernels/inducing_point_kernel.py:44-72, kernels/grid_kernel.py:70-75,172) slot KMAT
     - variational strategy memo: cholesky_factor, variational_distribution_memo,
       pseudo_points_memo/amortized_exact_gp (variational/*.py)                    slots CHOL, VDIST, PSEUDO
   and every invalidation point the code has (record [points]; the real code is [all_on]):
     p_to_train  Module.train(True) clears caches          module.py:353-357 (the "or mode" disjunct)
     p_to_eval   Module.train(False) from training clears  module.py:353-357 (the "training and not mode" disjunct)
     p_load      Module._load_from_state_dict clears       module.py:389-396
     p_setdata   ExactGP.set_train_data drops the strategy exact_gp.py:148
     p_hook      clear_cache_hook on backward              exact_prediction_strategies.py:96-99,296-299
     p_call      _VariationalStrategy.__call__ clears the memo in training mode  _variational_strategy.py:328-330
     p_kernel    kernel._clear_cache deletes the kernel caches
     p_gp        ExactGP._clear_cache drops the strategy   exact_gp.py:98-100
     p_vs        _VariationalStrategy._clear_cache         _variational_strategy.py:86-87
     p_pop       KISS-GP covar_cache pair is re-keyed by fast_pred_samples  exact_prediction_strategies.py:689-692
     p_stale     staleness guards for settings that no memo key records:
                   SGPRPredictionStrategy.is_stale -> ExactGP.__call__ rebuilds the strategy when
                   sgpr_diagonal_correction differs from the value recorded at construction
                   (exact_gp.py:305, exact_prediction_strategies.py:790-798);
                   _VariationalStrategy.__call__ clears the memo when variational_cholesky_jitter
                   differs from _cache_jitter_val and records it (_variational_strategy.py:328-333);
                   GridInterpolationKernel.forward on a data-following grid (no grid_bounds) replaces
                   the grid by one spanning the inputs of the call and GridKernel.update_grid deletes
                   the cached K_UU (family [fam_kiss_dyn]; grid_kernel.py:94-111)
     p_restore   ExactGP.get_fantasy_model restores train_inputs / train_targets / likelihood /
                 prediction_strategy of the SOURCE model in a finally block  exact_gp.py:244-251
     p_shape     VariationalStrategy.forward drops the memoised Cholesky factor of K_ZZ when its
                 FULL shape (batch dimensions included) differs from that of the K_ZZ of the current
                 call  variational_strategy.py:203-211

   A prediction CONFIGURATION c encodes the settings of the call AND the batch shape of the test
   inputs: [cfg_of c] = c mod 4 selects the settings (family specific, below), [shape_of c] = c / 4
   the batch shape (0: un-batched n x d, 1: 2 x n x d, 2: 3 x n x d).  The only cache whose content
   depends on the input batch shape is the variational Cholesky factor: _VariationalStrategy.__call__
   expands the inducing points to the batch shape of the inputs, K_ZZ and its factor L inherit it, and
   the memo ("cholesky_factor", ignore_args=True) holds ONE factor whatever the arguments were.  It
   is modelled as a single-entry slot keyed by the batch shape and replaced on a key miss (point
   p_shape), exactly like the KISS-GP covar_cache pair keyed by fast_pred_samples (point p_pop).
   What history independence needs of it: the factor consulted by a call must have been computed
   for the batch shape of THAT call (key = shape_of c) from the current parameters under the current
   jitter (tag).  The caches of the exact prediction strategies are functions of the training data
   only (their batch shape is that of the training inputs), so for those families the uses do not
   depend on [shape_of c].

   A cache entry carries a [tag]: the (parameter version, data version, unkeyed-settings value)
   it was computed from.  The unkeyed-settings value of a configuration is [f_ck fam c]; it only
   enters the tags of the slots [f_ck_slots fam] whose content depends on it.  The state field
   [sck] is the value the staleness guard has recorded (strategy._sgpr_diagonal_correction resp.
   strategy._cache_jitter_val).  Versions are abstract counters; the harness holds the concrete
   snapshot of every version.  [Predict] returns the tags of the entries it consulted: an
   uninterpreted result "f(params, data, settings)".  Definitions only; proofs in
   Proofs/C03_cache.v. *)
From Coq Require Import Arith List Bool ZArith.
Import ListNotations.

Record tag := mkTag { t_pv : nat; t_dv : nat; t_ck : nat }.

(* state of the autograd graph a cached tensor hangs on *)
Inductive gstate := GNone | GLive | GFreed.

Record entry := mkEntry { e_slot : nat; e_key : nat; e_tag : tag; e_g : gstate }.
Definition cache := list entry.

(* one cache consultation: slot, the key the memo dictionary is indexed by (e.g. the NaN policy
   for mean_cache, fast_pred_samples for the KISS-GP pair) and whether the slot holds a single
   entry that is replaced on a key miss. *)
Record use := mkUse { u_slot : nat; u_key : nat; u_single : bool }.

Definition STRAT := 0. Definition MEAN := 1. Definition COVAR := 2. Definition KMAT := 3.
Definition CHOL := 4. Definition VDIST := 5. Definition WISKI := 6. Definition PSEUDO := 7.

Record family := mkFam {
  f_ncfg : nat;                       (* prediction configurations are 0 .. f_ncfg-1 *)
  f_uses : nat -> list use;           (* consultations of an eval-mode posterior call under cfg *)
  f_train_uses : list use;            (* consultations of a training-mode call *)
  f_prior_uses : list use;            (* consultations of an eval-mode prior call *)
  f_fant_uses : list use;             (* caches of the SOURCE model filled by get_fantasy_model *)
  f_fant_req : option nat;            (* slot that must be present for get_fantasy_model *)
  f_fant_ok : bool;                   (* fantasy models are implemented for this family *)
  f_fant_copy : list nat;             (* module-level caches that get_fantasy_model deep-copies with the model *)
  f_parent : nat -> option nat;       (* memo entries are computed from the object that owns them *)
  f_ddep : nat -> bool;               (* slot content depends on the training data *)
  f_strat_slots : list nat;           (* dropped with the prediction strategy *)
  f_hook_slots : list nat;            (* the strategy's _memoize_cache (cleared by the backward hook) *)
  f_kernel_slots : list nat;          (* cleared by kernel._clear_cache *)
  f_vs_slots : list nat;              (* cleared by _VariationalStrategy._clear_cache *)
  f_has_data : bool;                  (* set_train_data exists *)
  f_ck : nat -> nat;                  (* value, under cfg c, of the content-relevant setting no memo key records *)
  f_ck_slots : list nat;              (* slots whose content depends on it *)
  f_ck_drop : list nat;               (* what the staleness guard discards when the recorded value differs *)
  f_ck_train : bool                   (* the guard also runs (and records) in training-mode calls *)
}.

Record points := mkPts {
  p_to_train : bool; p_to_eval : bool; p_load : bool; p_setdata : bool; p_hook : bool;
  p_call : bool; p_kernel : bool; p_gp : bool; p_vs : bool; p_pop : bool; p_stale : bool; p_restore : bool;
  p_shape : bool }.
Definition all_on := mkPts true true true true true true true true true true true true true.

(* configuration = settings index + 4 * input-batch-shape index *)
Definition NCFG := 4. Definition NSHAPE := 3.
Definition cfg_of (c : nat) : nat := Nat.modulo c NCFG.
Definition shape_of (c : nat) : nat := Nat.div c NCFG.

(* [sck]: the settings value recorded by the staleness guard; [lost]: the object has lost its
   training data / likelihood / strategy (only reachable when p_restore is off) *)
Record state := mkSt { pv : nat; dv : nat; training : bool; cch : cache; sck : nat; lost : bool }.

(* histories start from a constructed object that has been put in eval mode *)
Definition init : state := mkSt 0 0 false [] 0 false.
(* a freshly constructed object holding parameter version v and data version w, in mode tr *)
Definition fresh (v w : nat) (tr : bool) : state := mkSt v w tr [] 0 false.

Inductive op :=
| OTrain | OEval | OStep | OSetData | OLoad | OFantasy | OPrior | OBackward | OPredict (c : nat).

(* ---- cache primitives ------------------------------------------------------------------ *)

Definition in_slots (l : list nat) (e : entry) : bool := existsb (Nat.eqb (e_slot e)) l.
Definition drop (l : list nat) (c : cache) : cache := filter (fun e => negb (in_slots l e)) c.

Fixpoint lookup (sl k : nat) (c : cache) : option entry :=
  match c with
  | [] => None
  | e :: r => if (e_slot e =? sl) && (e_key e =? k) then Some e else lookup sl k r
  end.
Fixpoint lookup_slot (sl : nat) (c : cache) : option entry :=
  match c with
  | [] => None
  | e :: r => if e_slot e =? sl then Some e else lookup_slot sl r
  end.

Definition mem (x : nat) (l : list nat) : bool := existsb (Nat.eqb x) l.

(* tag of an entry computed now under unkeyed-settings value ck: inherited from the owning object
   when there is one *)
Definition own_tag (fam : family) (s : state) (ck : nat) (sl : nat) : tag :=
  mkTag (pv s) (if f_ddep fam sl then dv s else 0) (if mem sl (f_ck_slots fam) then ck else 0).
Definition new_tag (fam : family) (s : state) (ck : nat) (c : cache) (u : use) : tag :=
  match f_parent fam (u_slot u) with
  | Some ps =>
      match lookup_slot ps c with
      | Some pe => e_tag pe
      | None => own_tag fam s ck (u_slot u)
      end
  | None => own_tag fam s ck (u_slot u)
  end.

(* which code site replaces a single-entry memo whose key differs from the requested one: the shape
   guard of VariationalStrategy.forward for the Cholesky factor, the pop in
   InterpolatedPredictionStrategy.exact_predictive_covar for everything else *)
Definition rekey (pts : points) (sl : nat) : bool := if sl =? CHOL then p_shape pts else p_pop pts.

Definition consult (pts : points) (fam : family) (s : state) (ck : nat) (g : gstate) (c : cache) (u : use)
  : cache * entry :=
  let fresh_e := mkEntry (u_slot u) (u_key u) (new_tag fam s ck c u) g in
  if u_single u then
    match lookup_slot (u_slot u) c with
    | Some e =>
        if e_key e =? u_key u then (c, e)
        else if rekey pts (u_slot u) then (fresh_e :: drop [u_slot u] c, fresh_e) else (c, e)
    | None => (fresh_e :: c, fresh_e)
    end
  else
    match lookup (u_slot u) (u_key u) c with
    | Some e => (c, e)
    | None => (fresh_e :: c, fresh_e)
    end.

Fixpoint consult_all (pts : points) (fam : family) (s : state) (ck : nat) (g : gstate) (c : cache)
  (us : list use) : cache * list entry :=
  match us with
  | [] => (c, [])
  | u :: r =>
      let '(c1, e) := consult pts fam s ck g c u in
      let '(c2, es) := consult_all pts fam s ck g c1 r in
      (c2, e :: es)
  end.

Definition module_slots (pts : points) (fam : family) : list nat :=
  (if p_gp pts then f_strat_slots fam else []) ++
  (if p_vs pts then f_vs_slots fam else []) ++
  (if p_kernel pts then f_kernel_slots fam else []).
Definition clear_modules (pts : points) (fam : family) (c : cache) : cache :=
  drop (module_slots pts fam) c.

Definition set_cache (s : state) (c : cache) : state := mkSt (pv s) (dv s) (training s) c (sck s) (lost s).
Definition set_cache_ck (s : state) (c : cache) (k : nat) : state := mkSt (pv s) (dv s) (training s) c k (lost s).
Definition bump_pv (s : state) : state := mkSt (S (pv s)) (dv s) (training s) (cch s) (sck s) (lost s).
Definition set_mode (s : state) (tr : bool) (c : cache) : state := mkSt (pv s) (dv s) tr c (sck s) (lost s).

(* a non-prior call of the object under configuration c: (state after, consulted entries).
   Eval mode: the staleness guard first compares the recorded settings value with the current one
   (a differing value discards [f_ck_drop]) and records the current one. *)
Definition call (pts : points) (fam : family) (s : state) (g : gstate) (c : nat)
  : state * list entry :=
  let ck := f_ck fam c in
  if training s then
    let c1 := if p_call pts && p_vs pts then drop (f_vs_slots fam) (cch s) else cch s in
    let k1 := if p_stale pts && f_ck_train fam then ck else sck s in
    let '(c2, es) := consult_all pts fam s ck GNone c1 (f_train_uses fam) in
    (set_cache_ck s c2 k1, es)
  else if lost s then
    (* train_inputs is None: ExactGP.__call__ returns the prior *)
    let '(c2, es) := consult_all pts fam s ck GNone (cch s) (f_prior_uses fam) in
    (set_cache s c2, es)
  else
    let c1 := if p_stale pts && negb (sck s =? ck) then drop (f_ck_drop fam) (cch s) else cch s in
    let k1 := if p_stale pts then ck else sck s in
    let '(c2, es) := consult_all pts fam s ck g c1 (f_uses fam c) in
    (set_cache_ck s c2 k1, es).

Definition is_freed (e : entry) : bool := match e_g e with GFreed => true | _ => false end.
Definition is_live (e : entry) : bool := match e_g e with GLive => true | _ => false end.
Definition same_entry (a b : entry) : bool := (e_slot a =? e_slot b) && (e_key a =? e_key b).
(* backward through the consulted entries frees their graphs *)
Definition free_graphs (es : list entry) (c : cache) : cache :=
  map (fun e => if is_live e && existsb (same_entry e) es
                then mkEntry (e_slot e) (e_key e) (e_tag e) GFreed else e) c.

Definition ST_OK := 0. Definition ST_ERR := 1. Definition ST_INADM := 2.

(* what an operation reports of a consulted entry: the dictionary key and the tag *)
Definition obs (e : entry) : nat * tag := (e_key e, e_tag e).

(* one operation: new state, status, entries consulted *)
Definition step (pts : points) (fam : family) (s : state) (o : op) : state * (nat * list (nat * tag)) :=
  match o with
  | OTrain =>
      let c := if p_to_train pts then clear_modules pts fam (cch s) else cch s in
      (set_mode s true c, (ST_OK, []))
  | OEval =>
      let c := if training s && p_to_eval pts then clear_modules pts fam (cch s) else cch s in
      (set_mode s false c, (ST_OK, []))
  | OStep =>
      if training s then
        let '(s1, es) := call pts fam s GNone 0 in
        (bump_pv s1, (ST_OK, map obs es))
      else (s, (ST_INADM, []))
  | OSetData =>
      if f_has_data fam then
        let c := if p_setdata pts then drop (f_strat_slots fam) (cch s) else cch s in
        (mkSt (pv s) (S (dv s)) (training s) c (sck s) (lost s), (ST_OK, []))
      else (s, (ST_INADM, []))
  | OLoad =>
      let c := if p_load pts then clear_modules pts fam (cch s) else cch s in
      (mkSt (S (pv s)) (dv s) (training s) c (sck s) (lost s), (ST_OK, []))
  | OFantasy =>
      (* ExactGP.get_fantasy_model needs an existing prediction strategy (in training mode there
         is none: every switch to training mode drops it) *)
      let present := match f_fant_req fam with
                     | Some sl => match lookup_slot sl (cch s) with Some _ => true | None => false end
                     | None => true end in
      (* deepcopy(self) raises on a cached tensor that hangs on an autograd graph (a module-level cache
         filled by a call made with gradients enabled) IF the cache is copied with the model: no
         current family has such a cache ([f_fant_copy] = [] everywhere; GridKernel.__deepcopy__ skips
         its cached matrix), so this branch is only reachable for [fam_kiss_cached_copy] *)
      let copyable := negb (existsb (fun e => in_slots (f_fant_copy fam) e &&
                                      match e_g e with GNone => false | _ => true end) (cch s)) in
      if present && f_fant_ok fam then
        if copyable then
          let '(c2, es) := consult_all pts fam s (f_ck fam 0) GNone (cch s) (f_fant_uses fam) in
          (set_cache s c2, (ST_OK, map obs es))
        else
          (* deepcopy raised while train_inputs / train_targets / likelihood / prediction_strategy
             of the source were temporarily None: restored by the finally block (p_restore) *)
          if p_restore pts then (s, (ST_ERR, []))
          else (mkSt (pv s) (dv s) (training s) (drop (f_strat_slots fam) (cch s)) (sck s) true, (ST_ERR, []))
      else (s, (ST_ERR, []))
  | OPrior =>
      if training s then (s, (ST_OK, []))
      else
        let '(c2, es) := consult_all pts fam s (f_ck fam 0) GNone (cch s) (f_prior_uses fam) in
        (set_cache s c2, (ST_OK, map obs es))
  | OBackward =>
      let '(s1, es) := call pts fam s GLive 0 in
      if training s then (s1, (ST_OK, map obs es))
      else if existsb is_freed es then (s1, (ST_ERR, map obs es))
      else
        let c1 := free_graphs es (cch s1) in
        let hooked := existsb (fun e => is_live e && in_slots (f_hook_slots fam) e) es in
        let c2 := if hooked && p_hook pts then drop (f_hook_slots fam) c1 else c1 in
        (set_cache s1 c2, (ST_OK, map obs es))
  | OPredict c =>
      let '(s1, es) := call pts fam s GNone c in
      (s1, (ST_OK, map obs es))
  end.

(* does operation o, executed in state s, consult exactly what it would consult on a freshly
   constructed object holding the same versions?  (decided inside the model, reported to the harness) *)
Definition tag_eqb (a b : tag) : bool :=
  (t_pv a =? t_pv b) && (t_dv a =? t_dv b) && (t_ck a =? t_ck b).
Fixpoint obs_eqb (a b : list (nat * tag)) : bool :=
  match a, b with
  | [], [] => true
  | (k, t) :: r, (k', t') :: r' => (k =? k') && tag_eqb t t' && obs_eqb r r'
  | _, _ => false
  end.
Definition indep (pts : points) (fam : family) (s : state) (o : op) : bool :=
  match o with
  | OPredict _ | OPrior | OBackward =>
      obs_eqb (snd (snd (step pts fam s o)))
              (snd (snd (step pts fam (fresh (pv s) (dv s) (training s)) o)))
  | _ => true
  end.

Fixpoint run (pts : points) (fam : family) (s : state) (h : list op) : state :=
  match h with
  | [] => s
  | o :: r => run pts fam (fst (step pts fam s o)) r
  end.

(* outputs of every operation of a history, in order *)
Fixpoint trace (pts : points) (fam : family) (s : state) (h : list op)
  : list (nat * nat * bool * (nat * list (nat * tag))) :=
  match h with
  | [] => []
  | o :: r =>
      let '(s1, out) := step pts fam s o in
      (pv s1, dv s1, indep pts fam s o, out) :: trace pts fam s1 r
  end.

(* the observable of the property: what the next prediction is computed from *)
Definition predict_out (pts : points) (fam : family) (s : state) (c : nat) : nat * list (nat * tag) :=
  snd (step pts fam s (OPredict c)).

(* Step only in training mode (the property's exclusion); cfg in range *)
Definition op_ok (fam : family) (s : state) (o : op) : bool :=
  match o with
  | OStep => training s
  | OPredict c => c <? f_ncfg fam
  | _ => true
  end.
Fixpoint admissible (pts : points) (fam : family) (s : state) (h : list op) : bool :=
  match h with
  | [] => true
  | o :: r => op_ok fam s o && admissible pts fam (fst (step pts fam s o)) r
  end.

(* ---- the families ---------------------------------------------------------------------- *)

Definition U (sl k : nat) := mkUse sl k false.

(* exact GP, DefaultPredictionStrategy.
   settings 0 default; 1 fast_pred_var; 2 observation_nan_policy('mask'); 3 eager kernels *)
Definition fam_exact : family := {|
  f_ncfg := NCFG * NSHAPE;
  f_uses := fun c => match cfg_of c with
                     | 1 => [U STRAT 0; U MEAN 0; U COVAR 0]
                     | 2 => [U STRAT 0; U MEAN 1]
                     | _ => [U STRAT 0; U MEAN 0]
                     end;
  f_train_uses := []; f_prior_uses := [];
  f_fant_uses := [U MEAN 0]; f_fant_req := Some STRAT; f_fant_ok := true; f_fant_copy := [];
  f_parent := fun sl => if (sl =? MEAN) || (sl =? COVAR) then Some STRAT else None;
  f_ddep := fun sl => (sl =? STRAT) || (sl =? MEAN) || (sl =? COVAR);
  f_strat_slots := [STRAT; MEAN; COVAR]; f_hook_slots := [MEAN; COVAR];
  f_kernel_slots := []; f_vs_slots := []; f_has_data := true;
  f_ck := fun _ => 0; f_ck_slots := []; f_ck_drop := []; f_ck_train := false |}.

(* KISS-GP: GridInterpolationKernel + InterpolatedPredictionStrategy.
   settings 0 default; 1 fast_pred_var; 2 fast_pred_var + fast_pred_samples; 3 skip_posterior_variances.
   mean_cache is not keyed; the covar_cache pair is a single entry keyed by fast_pred_samples. *)
Definition fam_kiss : family := {|
  f_ncfg := NCFG * NSHAPE;
  f_uses := fun c => match cfg_of c with
                     | 1 => [U KMAT 0; U STRAT 0; U MEAN 0; mkUse COVAR 0 true]
                     | 2 => [U KMAT 0; U STRAT 0; U MEAN 0; mkUse COVAR 1 true]
                     | _ => [U KMAT 0; U STRAT 0; U MEAN 0]
                     end;
  f_train_uses := []; f_prior_uses := [U KMAT 0];
  f_fant_uses := [U KMAT 0; U WISKI 0]; f_fant_req := Some STRAT; f_fant_ok := true; f_fant_copy := [];
  f_parent := fun sl => if (sl =? MEAN) || (sl =? COVAR) || (sl =? WISKI) then Some STRAT else None;
  f_ddep := fun sl => (sl =? STRAT) || (sl =? MEAN) || (sl =? COVAR) || (sl =? WISKI);
  f_strat_slots := [STRAT; MEAN; COVAR; WISKI]; f_hook_slots := [MEAN; COVAR; WISKI];
  f_kernel_slots := [KMAT]; f_vs_slots := []; f_has_data := true;
  f_ck := fun _ => 0; f_ck_slots := []; f_ck_drop := []; f_ck_train := false |}.

(* KISS-GP as it was BEFORE GridKernel.__deepcopy__ stopped copying _cached_kernel_mat: the cached
   kernel matrix was deep-copied with the model by get_fantasy_model, and deepcopy raises on a
   tensor that hangs on an autograd graph (filled by a call made with gradients enabled).  Kept only
   to show that the exception safety of get_fantasy_model (point p_restore) mattered; no current
   family has a cache that is copied, so under the current code a fantasy model never fails that way. *)
Definition fam_kiss_cached_copy : family := {|
  f_ncfg := f_ncfg fam_kiss; f_uses := f_uses fam_kiss; f_train_uses := f_train_uses fam_kiss;
  f_prior_uses := f_prior_uses fam_kiss; f_fant_uses := f_fant_uses fam_kiss; f_fant_req := f_fant_req fam_kiss;
  f_fant_ok := true; f_fant_copy := [KMAT]; f_parent := f_parent fam_kiss; f_ddep := f_ddep fam_kiss;
  f_strat_slots := f_strat_slots fam_kiss; f_hook_slots := f_hook_slots fam_kiss;
  f_kernel_slots := f_kernel_slots fam_kiss; f_vs_slots := f_vs_slots fam_kiss; f_has_data := true;
  f_ck := f_ck fam_kiss; f_ck_slots := f_ck_slots fam_kiss; f_ck_drop := f_ck_drop fam_kiss;
  f_ck_train := f_ck_train fam_kiss |}.

(* SGPR: InducingPointKernel + SGPRPredictionStrategy.
   settings 0 default; 1 fast_pred_var; 2 nan policy 'mask'; 3 sgpr_diagonal_correction(False):
   the train-train covariance the strategy holds (and mean_cache / covar_cache derived from it)
   is evaluated under the setting active when the strategy was built; no dictionary key records
   it (f_ck 3 = 1), the strategy records it and is rebuilt by ExactGP.__call__ when it differs. *)
Definition fam_sgpr : family := {|
  f_ncfg := NCFG * NSHAPE;
  f_uses := fun c => match cfg_of c with
                     | 2 => [U KMAT 0; U STRAT 0; U MEAN 1; U COVAR 0]
                     | _ => [U KMAT 0; U STRAT 0; U MEAN 0; U COVAR 0]
                     end;
  f_train_uses := []; f_prior_uses := [U KMAT 0];
  f_fant_uses := []; f_fant_req := Some STRAT; f_fant_ok := false; f_fant_copy := [];
  f_parent := fun sl => if (sl =? MEAN) || (sl =? COVAR) then Some STRAT else None;
  f_ddep := fun sl => (sl =? STRAT) || (sl =? MEAN) || (sl =? COVAR);
  f_strat_slots := [STRAT; MEAN; COVAR]; f_hook_slots := [MEAN; COVAR];
  f_kernel_slots := [KMAT]; f_vs_slots := []; f_has_data := true;
  f_ck := fun c => match cfg_of c with 3 => 1 | _ => 0 end;
  f_ck_slots := [STRAT; MEAN; COVAR]; f_ck_drop := [STRAT; MEAN; COVAR]; f_ck_train := false |}.

(* variational GP (VariationalStrategy / UnwhitenedVariationalStrategy, any distribution).
   settings 0 default; 1 skip_posterior_variances; 2 eager kernels;
   3 variational_cholesky_jitter(non-default): the cached Cholesky factor is computed with the
   jitter active when it was first needed and cached with ignore_args=True (f_ck 3 = 1);
   __call__ compares the jitter with _cache_jitter_val, clears the memo when it differs, and
   records it (also in training mode, where the memo is cleared anyway).
   The Cholesky factor is ONE memo entry that carries the batch shape of the inputs it was computed
   for: single-entry slot keyed by [shape_of c] (see the header).  Training-mode calls clear the memo
   first and therefore always compute the factor for their own inputs. *)
Definition fam_var (fant : bool) : family := {|
  f_ncfg := NCFG * NSHAPE;
  f_uses := fun c => [U VDIST 0; mkUse CHOL (shape_of c) true];
  f_train_uses := [U VDIST 0; U CHOL 0]; f_prior_uses := [];
  f_fant_uses := [U VDIST 0; U PSEUDO 0]; f_fant_req := None; f_fant_ok := fant; f_fant_copy := [];
  f_parent := fun _ => None;
  f_ddep := fun _ => false;
  f_strat_slots := []; f_hook_slots := [];
  f_kernel_slots := []; f_vs_slots := [VDIST; CHOL; PSEUDO]; f_has_data := false;
  f_ck := fun c => match cfg_of c with 3 => 1 | _ => 0 end;
  f_ck_slots := [CHOL]; f_ck_drop := [VDIST; CHOL; PSEUDO]; f_ck_train := true |}.

(* exact GP whose training targets contain NaNs (missing observations), DefaultPredictionStrategy.
   settings 0 default = observation_nan_policy 'ignore'; 1 'mask'; 2 'fill'; 3 fast_pred_var + 'mask'.
   _mean_cache is memoised per policy (the dictionary key IS the policy: 0 / 1 / 2).  The mask of
   missing labels that exact_predictive_covar applies is recomputed on every call from the labels and
   the policy in force (exact_prediction_strategies.py:391-420): it is not a cache, so no slot; with
   missing labels under 'mask' / 'fill' the exact solve is used even when fast_pred_var is on, so
   configuration 3 does not consult covar_cache. *)
Definition fam_exact_nan : family := {|
  f_ncfg := NCFG * NSHAPE;
  f_uses := fun c => match cfg_of c with
                     | 1 => [U STRAT 0; U MEAN 1]
                     | 2 => [U STRAT 0; U MEAN 2]
                     | 3 => [U STRAT 0; U MEAN 1]
                     | _ => [U STRAT 0; U MEAN 0]
                     end;
  f_train_uses := []; f_prior_uses := [];
  f_fant_uses := [U MEAN 0]; f_fant_req := Some STRAT; f_fant_ok := true; f_fant_copy := [];
  f_parent := fun sl => if (sl =? MEAN) || (sl =? COVAR) then Some STRAT else None;
  f_ddep := fun sl => (sl =? STRAT) || (sl =? MEAN) || (sl =? COVAR);
  f_strat_slots := [STRAT; MEAN; COVAR]; f_hook_slots := [MEAN; COVAR];
  f_kernel_slots := []; f_vs_slots := []; f_has_data := true;
  f_ck := fun _ => 0; f_ck_slots := []; f_ck_drop := []; f_ck_train := false |}.

(* KISS-GP on a DATA-FOLLOWING grid: GridInterpolationKernel built without grid_bounds
   (grid_is_dynamic).  Every forward call of the kernel replaces the grid by one that spans the
   inputs of THAT call (grid_interpolation_kernel.py:150-180; has_initialized_grid is never set), and
   GridKernel.update_grid deletes the eval-mode cached inducing covariance K_UU (_cached_kernel_mat,
   grid_kernel.py:94-111).  The content of slot KMAT therefore depends on the input range of the
   call that filled it, which no memo key records: it is the unkeyed value [f_ck] of the
   configuration (0: test inputs inside the range of the training inputs, 1: test inputs outside it),
   [sck] is the range the current grid was laid out for, and the replacement of the grid is the
   staleness guard (point p_stale: a call on another range discards KMAT and records the new range).
   settings 0 default; 1 fast_pred_var; 2 fast_pred_var + fast_pred_samples; 3 default settings on
   test inputs OUTSIDE the training range.  The train-only caches of the strategy are built from the
   train/train covariance, i.e. on the grid of the training inputs: independent of the range of the
   test inputs.  A prior-mode call / get_fantasy_model lays out its own grid; the K_UU entry such a
   call leaves behind is discarded by the grid replacement of the next call and is not modelled
   (unguarded consultations must not touch a slot that depends on the unkeyed value). *)
Definition fam_kiss_dyn : family := {|
  f_ncfg := NCFG * NSHAPE;
  f_uses := fun c => match cfg_of c with
                     | 1 => [U KMAT 0; U STRAT 0; U MEAN 0; mkUse COVAR 0 true]
                     | 2 => [U KMAT 0; U STRAT 0; U MEAN 0; mkUse COVAR 1 true]
                     | _ => [U KMAT 0; U STRAT 0; U MEAN 0]
                     end;
  f_train_uses := []; f_prior_uses := [];
  f_fant_uses := [U WISKI 0]; f_fant_req := Some STRAT; f_fant_ok := true; f_fant_copy := [];
  f_parent := fun sl => if (sl =? MEAN) || (sl =? COVAR) || (sl =? WISKI) then Some STRAT else None;
  f_ddep := fun sl => (sl =? STRAT) || (sl =? MEAN) || (sl =? COVAR) || (sl =? WISKI);
  f_strat_slots := [STRAT; MEAN; COVAR; WISKI]; f_hook_slots := [MEAN; COVAR; WISKI];
  f_kernel_slots := [KMAT]; f_vs_slots := []; f_has_data := true;
  f_ck := fun c => match cfg_of c with 3 => 1 | _ => 0 end;
  f_ck_slots := [KMAT]; f_ck_drop := [KMAT]; f_ck_train := false |}.

Definition family_of (k : nat) : family :=
  match k with
  | 0 => fam_exact | 1 => fam_kiss | 2 => fam_sgpr | 3 => fam_var true
  | 5 => fam_exact_nan | 6 => fam_kiss_dyn | _ => fam_var false
  end.

Definition points_without (k : nat) : points :=
  let T := true in let F := false in
  match k with
  | 1 => mkPts F T T T T T T T T T T T T
  | 2 => mkPts T F T T T T T T T T T T T
  | 3 => mkPts T T F T T T T T T T T T T
  | 4 => mkPts T T T F T T T T T T T T T
  | 5 => mkPts T T T T F T T T T T T T T
  | 6 => mkPts T T T T T F T T T T T T T
  | 7 => mkPts T T T T T T F T T T T T T
  | 8 => mkPts T T T T T T T F T T T T T
  | 9 => mkPts T T T T T T T T F T T T T
  | 10 => mkPts T T T T T T T T T F T T T
  | 11 => mkPts F F T T T T T T T T T T T   (* Module.train override deleted *)
  | 12 => mkPts T T T T T T T T T T F T T   (* no staleness guards (the code before fixes 2c041f6 / 4d5d0c3) *)
  | 13 => mkPts T T T T T T T T T T T F T   (* get_fantasy_model without the finally block (before fix 5e27225) *)
  | 14 => mkPts T T T T T T T T T T T T F   (* VariationalStrategy.forward keeps a Cholesky factor of another batch shape *)
  | _ => all_on
  end.

(* ---- executable wrapper: history as op codes, result as list Z -------------------------- *)

Definition op_of_code (z : Z) : op :=
  match z with
  | 0%Z => OTrain | 1%Z => OEval | 2%Z => OStep | 3%Z => OSetData | 4%Z => OLoad
  | 5%Z => OFantasy | 6%Z => OPrior | 7%Z => OBackward
  | _ => OPredict (Z.to_nat (z - 8))
  end.

Definition ser_tag (kt : nat * tag) : list Z :=
  let '(k, t) := kt in [Z.of_nat k; Z.of_nat (t_pv t); Z.of_nat (t_dv t); Z.of_nat (t_ck t)].
Definition ser_out (r : nat * nat * bool * (nat * list (nat * tag))) : list Z :=
  let '(v, w, ind, (st, ts)) := r in
  [Z.of_nat v; Z.of_nat w; Z.of_nat st; (if ind then 1 else 0)%Z; Z.of_nat (length ts)] ++ flat_map ser_tag ts.

(* case = (family, variant (0 = the real code, k = invalidation point k removed), op codes) *)
Definition run_history (c : nat * nat * list Z) : list Z :=
  let '(f, k, codes) := c in
  flat_map ser_out (trace (points_without k) (family_of f) init (map op_of_code codes)).
