(* C05 model: the DOCUMENTED covariance function of every kernel exported by gpytorch.kernels,
   transcribed from the class docstrings (not from forward()).  Definitions only.

   Every formula is written ONCE, generically over a structure [TOps] of scalars with
   transcendental operations, and instantiated twice:
     - [TE]  : Expr.expr with constant-folding smart constructors  -> what is executed
               (inputs are exact rationals, the result is a small closed term per entry that
               the harness evaluates with mpmath);
     - [TR]  : Coq reals -> what the theorems (derivatives, identities) are about.          *)
From Coq Require Import Arith List ZArith QArith Qcanon Reals Bool.
From GPV Require Import Base.LinAlg Base.Exec Base.Expr.
Import ListNotations.

Class TOps := {
  tc : Type;
  tq : Qc -> tc;                       (* embedding of rational data / hyper-parameters *)
  t0 : tc; t1 : tc; tpi : tc;
  tadd : tc -> tc -> tc; tsub : tc -> tc -> tc; tmul : tc -> tc -> tc; tdiv : tc -> tc -> tc;
  tneg : tc -> tc;
  texp : tc -> tc; tsqrt : tc -> tc; tsin : tc -> tc; tcos : tc -> tc;
  tpow : tc -> tc -> tc;               (* real power, positive base *)
  tmax : tc -> tc -> tc
}.

(* ------------------------------------------------------------------ generic formulas *)
Section Generic.
Context {T : TOps}.

Fixpoint tsum (n : nat) (f : nat -> tc) : tc :=
  match n with O => t0 | S k => tadd (tsum k f) (f k) end.
Fixpoint tprod (n : nat) (f : nat -> tc) : tc :=
  match n with O => t1 | S k => tmul (tprod k f) (f k) end.
Fixpoint tipow (x : tc) (n : nat) : tc :=
  match n with O => t1 | S k => tmul x (tipow x k) end.
Fixpoint tnat (n : nat) : tc :=
  match n with O => t0 | S O => t1 | S k => tadd (tnat k) t1 end.
Definition tsq (x : tc) : tc := tmul x x.
Definition t2 : tc := tnat 2.

(* scaled squared distance (x - y)^T Theta^-2 (x - y), Theta = diag(l) *)
Definition sqd (d : nat) (x y l : nat -> tc) : tc :=
  tsum d (fun m => tsq (tdiv (tsub (x m) (y m)) (l m))).
Definition dot (d : nat) (x y : nat -> tc) : tc := tsum d (fun m => tmul (x m) (y m)).

(* RBFKernel docstring: exp(-1/2 (x1-x2)^T Theta^-2 (x1-x2)) *)
Definition k_rbf (d : nat) (x y l : nat -> tc) : tc :=
  texp (tneg (tdiv (sqd d x y l) t2)).

(* MaternKernel docstring for nu = 1/2, 3/2, 5/2 (closed forms of the Bessel expression; the
   nu = 5/2 form is the one spelled out in Matern52KernelGrad's docstring).  nu2 = 2 nu. *)
Definition k_matern (nu2 : nat) (d : nat) (x y l : nat -> tc) : tc :=
  let r := tsqrt (sqd d x y l) in
  match nu2 with
  | 1%nat => texp (tneg r)
  | 3%nat => let s := tmul (tsqrt (tnat 3)) r in tmul (tadd t1 s) (texp (tneg s))
  | _ => let s := tmul (tsqrt (tnat 5)) r in
         tmul (tadd (tadd t1 s) (tmul (tdiv (tnat 5) (tnat 3)) (tsq r))) (texp (tneg s))
  end.

(* RQKernel: (1 + 1/(2 alpha) (x1-x2)^T Theta^-2 (x1-x2))^(-alpha) *)
Definition k_rq (alpha : tc) (d : nat) (x y l : nat -> tc) : tc :=
  tpow (tadd t1 (tdiv (sqd d x y l) (tmul t2 alpha))) (tneg alpha).

(* PeriodicKernel: exp(-2 sum_i sin^2(pi/p (x_i - x_i')) / lambda), per-dimension p, lambda
   when ard_num_dims is set *)
Definition k_periodic (d : nat) (x y p l : nat -> tc) : tc :=
  texp (tmul (tneg t2)
    (tsum d (fun m => tdiv (tsq (tsin (tmul (tdiv tpi (p m)) (tsub (x m) (y m))))) (l m)))).

(* CosineKernel: cos(pi ||x1 - x2||_2 / p) *)
Definition k_cosine (p : tc) (d : nat) (x y : nat -> tc) : tc :=
  tcos (tdiv (tmul tpi (tsqrt (tsum d (fun m => tsq (tsub (x m) (y m)))))) p).

(* LinearKernel: v x1^T x2 (per-dimension v with ard_num_dims) *)
Definition k_linear (d : nat) (x y v : nat -> tc) : tc :=
  tsum d (fun m => tmul (v m) (tmul (x m) (y m))).

(* PolynomialKernel: (x1^T x2 + c)^power *)
Definition k_poly (c : tc) (pw : nat) (d : nat) (x y : nat -> tc) : tc :=
  tipow (tadd (dot d x y) c) pw.

(* PiecewisePolynomialKernel: j = floor(D/2) + q + 1, r = ||x1 - x2|| (after lengthscale),
   K_q = (1 - r)_+^(j+q) * P_q(j, r) with the documented polynomials (R&W eq. 4.21) *)
Definition pp_poly (q : nat) (j r : tc) : tc :=
  match q with
  | 0%nat => t1
  | 1%nat => tadd (tmul (tadd j t1) r) t1
  | 2%nat => tadd (tadd t1 (tmul (tadd j t2) r))
           (tmul (tdiv (tadd (tadd (tsq j) (tmul (tnat 4) j)) (tnat 3)) (tnat 3)) (tsq r))
  | _ => tadd (tadd (tadd t1 (tmul (tadd j (tnat 3)) r))
           (tmul (tdiv (tadd (tadd (tmul (tnat 6) (tsq j)) (tmul (tnat 36) j)) (tnat 45)) (tnat 15))
                 (tsq r)))
           (tmul (tdiv (tadd (tadd (tadd (tipow j 3) (tmul (tnat 9) (tsq j))) (tmul (tnat 23) j))
                             (tnat 15)) (tnat 15))
                 (tipow r 3))
  end.
Definition k_pp (q : nat) (d : nat) (x y l : nat -> tc) : tc :=
  let r := tsqrt (sqd d x y l) in
  let j := (Nat.div d 2 + q + 1)%nat in
  tmul (tipow (tmax t0 (tsub t1 r)) (j + q)) (pp_poly q (tnat j) r).

(* SpectralMixtureKernel, in the reading the property fixes: product over input dimensions of
   1-d mixtures  sum_q w_q exp(-2 pi^2 tau_m^2 s_qm^2) cos(2 pi tau_m mu_qm) *)
Definition k_sm (nq : nat) (w : nat -> tc) (mu s : nat -> nat -> tc) (d : nat) (x y : nat -> tc) : tc :=
  tprod d (fun m =>
    let tau := tsub (x m) (y m) in
    tsum nq (fun q =>
      tmul (w q)
        (tmul (texp (tneg (tmul (tmul t2 (tsq tpi)) (tsq (tmul tau (s q m))))))
              (tcos (tmul (tmul t2 tpi) (tmul tau (mu q m))))))).

(* SpectralDeltaKernel: spectral density = mixture of nz point masses at the learned sites Z:
   k(x,y) = 1/nz sum_s cos(2 pi z_s . (x - y)/l) *)
Definition k_sdelta (nz : nat) (z : nat -> nat -> tc) (d : nat) (x y l : nat -> tc) : tc :=
  tdiv (tsum nz (fun s =>
          tcos (tmul (tmul t2 tpi)
                 (tsum d (fun m => tmul (z s m) (tdiv (tsub (x m) (y m)) (l m)))))))
       (tnat nz).

(* ArcKernel: cylindrical embedding, as the class docstring gives it:
     g_i(x) = [0, 0]                                        if delta_i(x) = false
            = omega_i [sin(pi rho_i x_i / l_i), cos(...)]   otherwise
   (all sines first, then all cosines), then the base kernel on the embedded points.  delta is the
   constructor option [delta_func] (a user-supplied activity predicate, default: always active);
   the formula takes its VALUE at the point as the indicator act_i(x) in {0, 1} (what delta_func
   returns), so g_i(x) = act_i(x) omega_i [sin, cos]. *)
Definition arc_embed (d : nat) (rad ang l act x : nat -> tc) : nat -> tc :=
  fun m => if Nat.ltb m d
           then tmul (act m) (tmul (rad m) (tsin (tmul (tmul tpi (ang m)) (tdiv (x m) (l m)))))
           else let m' := (m - d)%nat in
                tmul (act m') (tmul (rad m') (tcos (tmul (tmul tpi (ang m')) (tdiv (x m') (l m'))))).

(* CylindricalKernel (BOCK): K_radial(kuma(|x1|), kuma(|x2|)) * sum_p w_p (a1 . a2)^p,
   a = x/|x|, kuma(r) = 1 - (1 - r^alpha + eps)^beta (Kumaraswamy cdf; eps = the documented
   numerical-stability constant of the class) *)
Definition vnorm (d : nat) (x : nat -> tc) : tc := tsqrt (tsum d (fun m => tsq (x m))).
Definition kuma (alpha beta eps r : tc) : tc :=
  tsub t1 (tpow (tadd (tsub t1 (tpow r alpha)) eps) beta).
Definition cyl_angular (np : nat) (w : nat -> tc) (d : nat) (x y : nat -> tc) : tc :=
  let rx := vnorm d x in let ry := vnorm d y in
  let g := tsum d (fun m => tmul (tdiv (x m) rx) (tdiv (y m) ry)) in
  tsum np (fun p => match p with O => w O | _ => tmul (w p) (tipow g p) end).

(* HammingIMQKernel: ((1 + alpha) / (alpha + d_Hamming))^beta on flattened one-hot sequences of
   length D = T * vocab: d_Hamming = T - <x1, x2> *)
Definition k_hamming (alpha beta : tc) (vocab : nat) (d : nat) (x y : nat -> tc) : tc :=
  let dh := tsub (tnat (Nat.div d vocab)) (dot d x y) in
  tpow (tdiv (tadd t1 alpha) (tadd alpha dh)) beta.

(* GaussianSymmetrizedKLKernel: inputs are [means (d) ; log-variances (d)]; distance =
   KL(p1||p2) + KL(p2||p1) with variances eps + exp(logvar); k = exp(-a * dist) as the
   DistributionalInputKernel docstring words it ([mulform = true]) or exp(-dist / a)
   ([mulform = false]); the driver picks the form the current docstring states. *)
Definition gskl_dist (eps : tc) (d : nat) (x y : nat -> tc) : tc :=
  tsum d (fun m =>
    let v1 := tadd eps (texp (x (d + m)%nat)) in
    let v2 := tadd eps (texp (y (d + m)%nat)) in
    let dl := tsq (tsub (x m) (y m)) in
    tadd (tdiv (tsub (tadd (tdiv v1 v2) (tdiv dl v2)) t1) t2)
         (tdiv (tsub (tadd (tdiv v2 v1) (tdiv dl v1)) t1) t2)).
Definition k_gskl (mulform : bool) (a eps : tc) (d : nat) (x y : nat -> tc) : tc :=
  let dist := gskl_dist eps d x y in
  texp (tneg (if mulform then tmul a dist else tdiv dist a)).

(* elementary symmetric polynomials e_k(z_0 .. z_{n-1}) (the documented meaning of
   NewtonGirardAdditiveKernel / sum_interaction_terms): all k at once, by adding one variable
   at a time:  e_k(z, rest) = e_k(rest) + z e_{k-1}(rest).  Result: list [e_0; ...; e_kmax]. *)
Fixpoint esp_add (z : tc) (prev : tc) (es : list tc) : list tc :=
  (* es = [e_k; e_{k+1}; ...] of the old variables, prev = e_{k-1} of the old variables *)
  match es with
  | [] => []
  | e :: rest => tadd e (tmul z prev) :: esp_add z e rest
  end.
Fixpoint esp_list (kmax : nat) (zs : list tc) : list tc :=
  match zs with
  | [] => t1 :: repeat t0 kmax
  | z :: rest => let es := esp_list kmax rest in
                 match es with [] => [] | e0 :: tl => e0 :: esp_add z e0 tl end
  end.
Definition esp (k : nat) (zs : list tc) : tc := nth k (esp_list k zs) t0.

(* Newton-Girard recurrence as the library computes it:
   e_0 = 1, e_deg = 1/deg sum_{k=1..deg} (-1)^(k-1) e_{deg-k} s_k,  s_k = sum_i z_i^k *)
Definition psum (k : nat) (zs : list tc) : tc :=
  fold_right (fun z acc => tadd (tipow z k) acc) t0 zs.
Definition ng_step (zs : list tc) (es : list tc) : tc :=
  (* es = [e_{deg-1}; ...; e_0] (deg entries)  ->  e_deg; the library divides by deg *)
  tdiv ((fix go (k : nat) (sgn : bool) (l : list tc) : tc :=
           match l with
           | [] => t0
           | e :: rest => let term := tmul e (psum k zs) in
                          tadd (if sgn then tneg term else term) (go (S k) (negb sgn) rest)
           end) 1%nat false es)
       (tnat (length es)).
Fixpoint ng_list (deg : nat) (zs : list tc) : list tc :=   (* [e_deg; ...; e_0] *)
  match deg with
  | O => [t1]
  | S k => let es := ng_list k zs in ng_step zs es :: es
  end.
Definition newton_girard (k : nat) (zs : list tc) : tc := hd t0 (ng_list k zs).

(* ---- derivative kernels: entry for output indices a (of x) and b (of y) ----
   a = 0: value; a = m+1: d/dx_m.  Entry (a,b) = D^a_x D^b_y k(x,y). *)

(* RBF, 1-d factor g(t) = exp(-t^2/(2 l^2)), t = x - y, u = t/l^2, s = 1/l^2:
   g^(n) = h_n g with h_0 = 1, h_1 = -u, h_2 = u^2 - s, h_3 = -u^3 + 3 s u,
   h_4 = u^4 - 6 s u^2 + 3 s^2;  d/dx = d/dt, d/dy = -d/dt *)
Definition rbf_h (n : nat) (u s : tc) : tc :=
  match n with
  | 0%nat => t1
  | 1%nat => tneg u
  | 2%nat => tsub (tsq u) s
  | 3%nat => tadd (tneg (tipow u 3)) (tmul (tnat 3) (tmul s u))
  | _ => tadd (tsub (tipow u 4) (tmul (tnat 6) (tmul s (tsq u)))) (tmul (tnat 3) (tsq s))
  end.
(* derivative order that output index c puts on input dimension m, for the layouts
   [value; d/dx_0..d/dx_{d-1}] (grad) and [value; d/dx_0..; d2/dx_0^2 ..] (gradgrad) *)
Definition ord (d c m : nat) : nat :=
  if Nat.eqb c (S m) then 1%nat else if Nat.eqb c (S (d + m)) then 2%nat else 0%nat.
Definition rbf_deriv_entry (d : nat) (x y l : nat -> tc) (a b : nat) : tc :=
  tmul
    (tprod d (fun m =>
       let u := tdiv (tsub (x m) (y m)) (tsq (l m)) in
       let s := tdiv t1 (tsq (l m)) in
       let h := rbf_h (ord d a m + ord d b m) u s in
       if Nat.odd (ord d b m) then tneg h else h))
    (k_rbf d x y l).

(* Matern-5/2 with first derivatives, from the Matern52KernelGrad docstring *)
Definition m52grad_entry (d : nat) (x y l : nat -> tc) (a b : nat) : tc :=
  let r := tsqrt (sqd d x y l) in
  let s := tmul (tsqrt (tnat 5)) r in
  let e := texp (tneg s) in
  let c53 := tdiv (tnat 5) (tnat 3) in
  let w m := tdiv (tsub (x m) (y m)) (tsq (l m)) in
  match a, b with
  | O, O => k_matern 5 d x y l
  | O, S i => tmul (tmul c53 (tmul (tadd t1 s) e)) (w i)
  | S j, O => tneg (tmul (tmul c53 (tmul (tadd t1 s) e)) (w j))
  | S j, S i =>
      tneg (tmul (tmul c53 e)
        (tsub (tmul (tnat 5) (tmul (w i) (w j)))
              (if Nat.eqb i j then tmul (tdiv t1 (tsq (l i))) (tadd t1 s) else t0)))
  end.

(* polynomial kernel with first derivatives: k = (x.y + c)^p *)
Definition polygrad_entry (c : tc) (pw : nat) (d : nat) (x y : nat -> tc) (a b : nat) : tc :=
  let base := tadd (dot d x y) c in
  match a, b with
  | O, O => tipow base pw
  | O, S i => tmul (tmul (tnat pw) (tipow base (pw - 1))) (x i)
  | S j, O => tmul (tmul (tnat pw) (tipow base (pw - 1))) (y j)
  | S j, S i =>
      tadd (tmul (tmul (tmul (tnat pw) (tnat (pw - 1))) (tipow base (pw - 2))) (tmul (y j) (x i)))
           (if Nat.eqb i j then tmul (tnat pw) (tipow base (pw - 1)) else t0)
  end.

(* documented per-point interleaved layout: entry (i*p + a, j*p + b) of the big matrix is the
   (a,b) entry of the block of points (i,j); p outputs per point *)
Definition interleaved (p : nat) (E : nat -> nat -> nat -> nat -> tc) : nat -> nat -> tc :=
  fun I J => E (Nat.div I p) (Nat.div J p) (Nat.modulo I p) (Nat.modulo J p).
(* the construction used by the library: blocks side by side (output-major), then the perfect
   shuffle pi = arange(n p).view(p, n).t().reshape(n p) applied to rows and columns *)
Definition block_major (n1 n2 : nat) (E : nat -> nat -> nat -> nat -> tc) : nat -> nat -> tc :=
  fun R C => E (Nat.modulo R n1) (Nat.modulo C n2) (Nat.div R n1) (Nat.div C n2).
Definition shuffle (n p : nat) (k : nat) : nat := (Nat.modulo k p * n + Nat.div k p)%nat.

End Generic.

(* squared distance by the quadratic expansion the library uses (kernel.py: sq_dist), over any
   field: subtract an adjustment (the column means of x1) from both, then
   |x|^2 + |y|^2 - 2 x.y.  Generic over Fld so that the identity is proved once for Qc and R. *)
Section SqDist.
Context {K : Fld}.
Local Open Scope fld_scope.
Fixpoint fnat (n : nat) : car := match n with O => 0 | S k => fnat k + 1 end.
Definition col_mean (n : nat) (X : M) (k : nat) : car := sum n (fun i => X i k) / fnat n.
Definition sq_dist_expanded (d : nat) (adj : nat -> car) (X1 X2 : M) : M := fun i j =>
  let a := fun k => X1 i k - adj k in
  let b := fun k => X2 j k - adj k in
  sum d (fun k => (- (1 + 1)) * a k * b k) + sum d (fun k => a k * a k) * 1
    + 1 * sum d (fun k => b k * b k).
Definition sq_dist_code (n1 d : nat) (X1 X2 : M) : M :=
  sq_dist_expanded d (col_mean n1 X1) X1 X2.
Definition sq_dist_direct (d : nat) (X1 X2 : M) : M := fun i j =>
  sum d (fun k => (X1 i k - X2 j k) * (X1 i k - X2 j k)).
End SqDist.

(* ------------------------------------------------------------------ instances *)

(* constants are folded only while they stay small: exact rational arithmetic on the products
   of several 53-bit hyper-parameters is what dominates the run time, and the harness
   evaluates unfolded nodes just as exactly *)
Definition qbits (q : Qc) : Z :=
  (Z.log2 (Z.abs (Qnum (this q)) + 1) + Z.log2 (Zpos (Qden (this q))))%Z.
Definition small2 (x y : Qc) : bool := (qbits x + qbits y <=? 160)%Z.

Definition sadd (a b : expr) : expr :=
  match a, b with
  | EConst x, EConst y =>
      if Qc_eqb x 0 then b else if Qc_eqb y 0 then a
      else if small2 x y then EConst (x + y)%Qc else EAdd a b
  | EConst x, _ => if Qc_eqb x 0 then b else EAdd a b
  | _, EConst y => if Qc_eqb y 0 then a else EAdd a b
  | _, _ => EAdd a b
  end.
Definition ssub (a b : expr) : expr :=
  match a, b with
  | EConst x, EConst y =>
      if Qc_eqb y 0 then a else if small2 x y then EConst (x - y)%Qc else ESub a b
  | _, EConst y => if Qc_eqb y 0 then a else ESub a b
  | _, _ => ESub a b
  end.
Definition smul (a b : expr) : expr :=
  match a, b with
  | EConst x, EConst y =>
      if Qc_eqb x 1 then b else if Qc_eqb y 1 then a
      else if Qc_eqb x 0 then EConst 0 else if Qc_eqb y 0 then EConst 0
      else if small2 x y then EConst (x * y)%Qc else EMul a b
  | EConst x, _ => if Qc_eqb x 1 then b else if Qc_eqb x 0 then EConst 0 else EMul a b
  | _, EConst y => if Qc_eqb y 1 then a else if Qc_eqb y 0 then EConst 0 else EMul a b
  | _, _ => EMul a b
  end.
Definition sdiv (a b : expr) : expr :=
  match a, b with
  | EConst x, EConst y =>
      if Qc_eqb y 1 then a
      else if Qc_eqb y 0 then EDiv a b
      else if small2 x y then EConst (x / y)%Qc else EDiv a b
  | _, EConst y => if Qc_eqb y 1 then a else EDiv a b
  | _, _ => EDiv a b
  end.
Definition sneg (a : expr) : expr :=
  match a with EConst x => EConst (- x)%Qc | ENeg b => b | _ => ENeg a end.
Definition smax (a b : expr) : expr :=
  match a, b with
  | EConst x, EConst y => if Qle_bool (this x) (this y) then b else a
  | _, _ => EMax a b
  end.

Global Instance TE : TOps := {|
  tc := expr; tq := EConst; t0 := EConst 0; t1 := EConst 1; tpi := EPi;
  tadd := sadd; tsub := ssub; tmul := smul; tdiv := sdiv; tneg := sneg;
  texp := EExp; tsqrt := ESqrt; tsin := ESin; tcos := ECos; tpow := EPow; tmax := smax |}.

Global Instance TR : TOps := {|
  tc := R; tq := Q2R'; t0 := 0%R; t1 := 1%R; tpi := PI;
  tadd := Rplus; tsub := Rminus; tmul := Rmult; tdiv := Rdiv; tneg := Ropp;
  texp := exp; tsqrt := sqrt; tsin := sin; tcos := cos; tpow := Rpower; tmax := Rmax |}.

(* ------------------------------------------------------------------ kernel terms *)
(* A kernel object with rational hyper-parameters (what the driver reads back from the
   gpytorch module, exactly).  Per-dimension parameter lists of length 1 mean "shared". *)
Inductive kern : Type :=
| KRBF (l : list Qc)
| KMatern (nu2 : nat) (l : list Qc)
| KRQ (alpha : Qc) (l : list Qc)
| KPeriodic (p l : list Qc)
| KCosine (p : Qc)
| KLinear (v : list Qc)
| KPoly (c : Qc) (pw : nat)
| KPP (q : nat) (l : list Qc)
| KConst (c : Qc)
| KScale (s : Qc) (k : kern)
| KSum (a b : kern)
| KProd (a b : kern)
| KSM (w : list Qc) (mu s : list (list Qc))
| KSDelta (z : list (list Qc)) (l : list Qc)
| KArc (base : kern) (rad ang l : list Qc)
| KCyl (w : list Qc) (alpha beta eps : Qc) (radial : kern)
| KHamming (alpha beta : Qc) (vocab : nat)
| KGSKL (mulform : bool) (a eps : Qc)
| KAddStruct (k : kern)
| KProdStruct (k : kern)
| KNG (os : list Qc) (k : kern)
| KActive (dims : list nat) (k : kern).

Section Eval.
Context {T : TOps}.

Definition pick (l : list Qc) (m : nat) : tc := tq (nth m l (hd 0%Qc l)).
Definition pick2 (l : list (list Qc)) (q m : nat) : tc := pick (nth q l []) m.
Definition vfun (x : list tc) : nat -> tc := fun m => nth m x t0.

(* [o] = offset added to the index of per-dimension hyper-parameters: the structure kernels
   evaluate the base kernel on input dimension m alone, with that dimension's parameters *)
Fixpoint eval (k : kern) (o : nat) (x y : list tc) {struct k} : tc :=
  let d := length x in
  let pk := fun (l : list Qc) (m : nat) => pick l (o + m) in
  match k with
  | KRBF l => k_rbf d (vfun x) (vfun y) (pk l)
  | KMatern nu2 l => k_matern nu2 d (vfun x) (vfun y) (pk l)
  | KRQ a l => k_rq (tq a) d (vfun x) (vfun y) (pk l)
  | KPeriodic p l => k_periodic d (vfun x) (vfun y) (pk p) (pk l)
  | KCosine p => k_cosine (tq p) d (vfun x) (vfun y)
  | KLinear v => k_linear d (vfun x) (vfun y) (pk v)
  | KPoly c pw => k_poly (tq c) pw d (vfun x) (vfun y)
  | KPP q l => k_pp q d (vfun x) (vfun y) (pk l)
  | KConst c => tq c
  | KScale s k' => tmul (tq s) (eval k' o x y)
  | KSum a b => tadd (eval a o x y) (eval b o x y)
  | KProd a b => tmul (eval a o x y) (eval b o x y)
  | KSM w mu s => k_sm (length w) (pick w) (pick2 mu) (pick2 s) d (vfun x) (vfun y)
  | KSDelta z l => k_sdelta (length z) (pick2 z) d (vfun x) (vfun y) (pk l)
  | KArc base rad ang l =>
      (* a point of an ArcKernel is given as its dd coordinates followed by the dd values
         delta_i(x) of the kernel's delta_func at that point (1 = active, 0 = inactive) *)
      let dd := Nat.div d 2 in
      let ex := map (arc_embed dd (pick rad) (pick ang) (pick l) (fun m => vfun x (dd + m)) (vfun x))
                    (seq 0 (2 * dd)) in
      let ey := map (arc_embed dd (pick rad) (pick ang) (pick l) (fun m => vfun y (dd + m)) (vfun y))
                    (seq 0 (2 * dd)) in
      eval base o ex ey
  | KCyl w alpha beta eps radial =>
      let rx := kuma (tq alpha) (tq beta) (tq eps) (vnorm d (vfun x)) in
      let ry := kuma (tq alpha) (tq beta) (tq eps) (vnorm d (vfun y)) in
      tmul (eval radial o [rx] [ry]) (cyl_angular (length w) (pick w) d (vfun x) (vfun y))
  | KHamming alpha beta vocab => k_hamming (tq alpha) (tq beta) vocab d (vfun x) (vfun y)
  | KGSKL mulform a eps => k_gskl mulform (tq a) (tq eps) (Nat.div d 2) (vfun x) (vfun y)
  | KAddStruct k' => tsum d (fun m => eval k' (o + m) [vfun x m] [vfun y m])
  | KProdStruct k' => tprod d (fun m => eval k' (o + m) [vfun x m] [vfun y m])
  | KNG os k' =>
      let zs := map (fun m => eval k' (o + m) [vfun x m] [vfun y m]) (seq 0 d) in
      tsum (length os) (fun g => tmul (pick os g) (esp (S g) zs))
  | KActive dims k' => eval k' o (map (vfun x) dims) (map (vfun y) dims)
  end.

End Eval.

(* ------------------------------------------------------------------ composition with the public operators *)
(* Kernel OBJECTS as the library builds them: AdditiveKernel / ProductKernel hold a LIST of sub-kernels,
   ScaleKernel wraps one.  The operators (kernel.py, Kernel.__add__ / Kernel.__mul__) concatenate the
   operands, flattening an operand only when it is a kernel of the operator's own kind:
       a + b = AdditiveKernel of (summands a ++ summands b),   a * b = ProductKernel of (factors a ++ factors b)
   so that k1 * (k2 + k3) has the two factors k1 and (k2 + k3).  The documented value of an
   AdditiveKernel / ProductKernel / ScaleKernel is the sum / product / scaling of the parts. *)
Inductive kobj : Type :=
| OLeaf (k : kern)
| OScale (s : Qc) (k : kobj)
| OAdd (ks : list kobj)
| OMul (ks : list kobj).

Definition summands (k : kobj) : list kobj := match k with OAdd ks => ks | _ => [k] end.
Definition factors (k : kobj) : list kobj := match k with OMul ks => ks | _ => [k] end.
Definition op_add (a b : kobj) : kobj := OAdd (summands a ++ summands b).
Definition op_mul (a b : kobj) : kobj := OMul (factors a ++ factors b).

Section ObjEval.
Context {T : TOps}.
Fixpoint oeval (k : kobj) (o : nat) (x y : list tc) {struct k} : tc :=
  match k with
  | OLeaf k' => eval k' o x y
  | OScale s k' => tmul (tq s) (oeval k' o x y)
  | OAdd ks => fold_right (fun k' acc => tadd (oeval k' o x y) acc) t0 ks
  | OMul ks => fold_right (fun k' acc => tmul (oeval k' o x y) acc) t1 ks
  end.
End ObjEval.

(* ------------------------------------------------------------------ executable wrapper *)
Inductive job : Type :=
| JK (k : kern)
| JO (k : kobj)
| JRBFGrad (l : list Qc)
| JM52Grad (l : list Qc)
| JPolyGrad (c : Qc) (pw : nat)
| JRBFGG (l : list Qc).

(* case = (job, rows of x1, rows of x2); result = the serialised closed-form term of every
   entry of the (multi-output) covariance matrix, row major *)
Definition run_job (c : job * list (list Qc) * list (list Qc)) : list Z :=
  let '(j, x1, x2) := c in
  let n1 := length x1 in let n2 := length x2 in
  let d := length (hd [] x1) in
  let X1 := fun i => map EConst (nth i x1 []) in
  let X2 := fun i => map EConst (nth i x2 []) in
  let multi := fun (p : nat) (E : nat -> nat -> nat -> nat -> expr) =>
    flat_map (fun I => flat_map (fun J => ser_expr (@interleaved TE p E I J)) (seq 0 (n2 * p)))
             (seq 0 (n1 * p)) in
  match j with
  | JK k =>
      flat_map (fun i => flat_map (fun jx => ser_expr (@eval TE k 0 (X1 i) (X2 jx))) (seq 0 n2))
               (seq 0 n1)
  | JO k =>
      flat_map (fun i => flat_map (fun jx => ser_expr (@oeval TE k 0 (X1 i) (X2 jx))) (seq 0 n2))
               (seq 0 n1)
  | JRBFGrad l =>
      multi (S d) (fun i jx a b =>
        @rbf_deriv_entry TE d (@vfun TE (X1 i)) (@vfun TE (X2 jx)) (@pick TE l) a b)
  | JM52Grad l =>
      multi (S d) (fun i jx a b =>
        @m52grad_entry TE d (@vfun TE (X1 i)) (@vfun TE (X2 jx)) (@pick TE l) a b)
  | JPolyGrad c pw =>
      multi (S d) (fun i jx a b =>
        @polygrad_entry TE (EConst c) pw d (@vfun TE (X1 i)) (@vfun TE (X2 jx)) a b)
  | JRBFGG l =>
      multi (S (2 * d)) (fun i jx a b =>
        @rbf_deriv_entry TE d (@vfun TE (X1 i)) (@vfun TE (X2 jx)) (@pick TE l) a b)
  end.

(* ------------------------------------------------------------------ transport encoding *)
(* Printing a Z numeral costs ~1 ms in Coq 8.16 (the number notation is evaluated by a Gallina
   binary->decimal conversion), which dominated the run time; primitive 63-bit integers print
   natively.  [pack] re-encodes a result list: |z| < 2^60 as one word 4|z| + 2 sgn, larger
   numbers as a header 4 nlimbs + 2 sgn + 1 followed by base-2^60 limbs (least significant
   first).  The driver decodes it back to the same list of integers. *)
From Coq Require Uint63.
Fixpoint limbs60 (fuel : nat) (z : Z) : list Uint63.int :=
  match fuel with
  | O => []
  | S f => if Z.eqb z 0 then []
           else Uint63.of_Z (Z.land z (Z.ones 60)) :: limbs60 f (Z.shiftr z 60)
  end.
Definition pack1 (z : Z) : list Uint63.int :=
  let a := Z.abs z in
  let s := if Z.ltb z 0 then 2%Z else 0%Z in
  if Z.ltb a (Z.shiftl 1 60) then [Uint63.of_Z (a * 4 + s)]
  else let ls := limbs60 256 a in Uint63.of_Z (Z.of_nat (length ls) * 4 + s + 1) :: ls.
Definition pack (l : list Z) : list Uint63.int := flat_map pack1 l.
