(* Field morphisms: the tie between the EXECUTED instance of a generic model (QcF: exact
   rationals, what [vm_compute] runs and what the drivers compare with the implementation) and
   the instance the order / analysis theorems are stated over (RF).
   A map phi between two [Fld] instances that preserves 0, 1, +, *, -, opp, / and inverse
   commutes with every generic matrix operation of Base/LinAlg.v and Base/Exec.v (finite sums,
   products, blocks, gathers, list materialisation, the Laplace determinant) and preserves
   [meq], [is_inverse], symmetry, triangularity.  [Q2R'] (Base/Expr.v, the denotation of the
   [EConst] nodes of printed terms) is such a morphism from QcF to RF, and it is injective, so
   the properties are also reflected.
   Statements are pointwise (Leibniz equality of entries at EVERY index pair, also outside the
   nominal dimensions); there is no functional extensionality anywhere.
   No axioms for a generic pair of fields; the Q2R' instance uses the standard-library reals. *)
From Coq Require Import Arith Lia List Bool ZArith QArith Qcanon Reals Qreals Setoid Morphisms Lra.
From GPV Require Import Base.LinAlg Base.Exec Base.Expr Base.Det.
Import ListNotations.

Class FldMorph (K1 K2 : Fld) (phi : @car K1 -> @car K2) : Prop := {
  phi_0 : phi (@f0 K1) = @f0 K2;
  phi_1 : phi (@f1 K1) = @f1 K2;
  phi_add : forall x y, phi (@fadd K1 x y) = @fadd K2 (phi x) (phi y);
  phi_mul : forall x y, phi (@fmul K1 x y) = @fmul K2 (phi x) (phi y);
  phi_sub : forall x y, phi (@fsub K1 x y) = @fsub K2 (phi x) (phi y);
  phi_opp : forall x, phi (@fopp K1 x) = @fopp K2 (phi x);
  phi_div : forall x y, phi (@fdiv K1 x y) = @fdiv K2 (phi x) (phi y);
  phi_inv : forall x, phi (@finv K1 x) = @finv K2 (phi x)
}.

(* image of a matrix / of a vector with NaN holes *)
Definition mmap {K1 K2 : Fld} (phi : @car K1 -> @car K2) (A : @M K1) : @M K2 :=
  fun i j => phi (A i j).

Section Morph.
Context {K1 K2 : Fld} (phi : @car K1 -> @car K2) {HM : FldMorph K1 K2 phi}.

(* ------------------------------------------------------------------ sums *)
Lemma phi_sum n (f : nat -> @car K1) : phi (sum n f) = sum n (fun i => phi (f i)).
Proof.
  induction n as [|n IH]; cbn [sum]; [apply phi_0|]. rewrite phi_add, IH. reflexivity.
Qed.

Lemma phi_lsum l (f : nat -> @car K1) : phi (lsum l f) = lsum l (fun i => phi (f i)).
Proof.
  induction l as [|x l IH]; cbn [lsum]; [apply phi_0|]. rewrite phi_add, IH. reflexivity.
Qed.

(* the dot product of two index functions, as it appears inside [mmul] *)
Lemma phi_dot n (f g : nat -> @car K1) :
  phi (sum n (fun l => fmul (f l) (g l))) = sum n (fun l => fmul (phi (f l)) (phi (g l))).
Proof. rewrite phi_sum. apply sum_ext. intros l _. apply phi_mul. Qed.

(* ------------------------------------------------------------------ matrix operations *)
Lemma mmap_mzero i j : mmap phi mzero i j = mzero i j.
Proof. unfold mmap, mzero. apply phi_0. Qed.
Lemma mmap_mI i j : mmap phi mI i j = mI i j.
Proof. unfold mmap, mI. destruct (Nat.eqb i j); [apply phi_1|apply phi_0]. Qed.
Lemma mmap_madd A B i j : mmap phi (madd A B) i j = madd (mmap phi A) (mmap phi B) i j.
Proof. unfold mmap, madd. apply phi_add. Qed.
Lemma mmap_msub A B i j : mmap phi (msub A B) i j = msub (mmap phi A) (mmap phi B) i j.
Proof. unfold mmap, msub. apply phi_sub. Qed.
Lemma mmap_mopp A i j : mmap phi (mopp A) i j = mopp (mmap phi A) i j.
Proof. unfold mmap, mopp. apply phi_opp. Qed.
Lemma mmap_mscale c A i j : mmap phi (mscale c A) i j = mscale (phi c) (mmap phi A) i j.
Proof. unfold mmap, mscale. apply phi_mul. Qed.
Lemma mmap_mT A i j : mmap phi (mT A) i j = mT (mmap phi A) i j.
Proof. reflexivity. Qed.
Lemma mmap_mmul k A B i j : mmap phi (mmul k A B) i j = mmul k (mmap phi A) (mmap phi B) i j.
Proof. unfold mmap, mmul. apply phi_dot. Qed.
Lemma mmap_mdiag d i j : mmap phi (mdiag d) i j = mdiag (fun i => phi (d i)) i j.
Proof. unfold mmap, mdiag. destruct (Nat.eqb i j); [reflexivity|apply phi_0]. Qed.
Lemma mmap_sub r c A i j : mmap phi (sub r c A) i j = sub r c (mmap phi A) i j.
Proof. reflexivity. Qed.
Lemma mmap_gather r c A i j : mmap phi (gather r c A) i j = gather r c (mmap phi A) i j.
Proof. reflexivity. Qed.
Lemma mmap_blk n m A B C D i j :
  mmap phi (blk n m A B C D) i j
  = blk n m (mmap phi A) (mmap phi B) (mmap phi C) (mmap phi D) i j.
Proof. unfold mmap, blk. destruct (Nat.ltb i n); destruct (Nat.ltb j m); reflexivity. Qed.
Lemma mmap_vstack n A C i j :
  mmap phi (vstack n A C) i j = vstack n (mmap phi A) (mmap phi C) i j.
Proof. unfold mmap, vstack. destruct (Nat.ltb i n); reflexivity. Qed.
Lemma mmap_hstack m A B i j :
  mmap phi (hstack m A B) i j = hstack m (mmap phi A) (mmap phi B) i j.
Proof. unfold mmap, hstack. destruct (Nat.ltb j m); reflexivity. Qed.

(* ------------------------------------------------------------------ lists (Base/Exec.v) *)
Lemma to_list_mmap n m A : to_list n m (mmap phi A) = map (map phi) (to_list n m A).
Proof.
  unfold to_list, mmap. rewrite map_map. apply map_ext. intros i. rewrite map_map. reflexivity.
Qed.

Lemma of_list_map l i j : of_list (map (map phi) l) i j = phi (of_list l i j).
Proof.
  unfold of_list. change (@nil (@car K2)) with (map phi (@nil (@car K1))).
  rewrite map_nth. rewrite <- (phi_0 (phi := phi)). apply map_nth.
Qed.

Lemma vec_of_list_map l i j : vec_of_list (map phi l) i j = phi (vec_of_list l i j).
Proof. unfold vec_of_list. rewrite <- (phi_0 (phi := phi)). apply map_nth. Qed.

Lemma mmap_of_list l i j : mmap phi (of_list l) i j = of_list (map (map phi) l) i j.
Proof. symmetry. apply of_list_map. Qed.
Lemma mmap_vec_of_list l i j : mmap phi (vec_of_list l) i j = vec_of_list (map phi l) i j.
Proof. symmetry. apply vec_of_list_map. Qed.

Lemma mmap_mat n m A i j : mmap phi (mat n m A) i j = mat n m (mmap phi A) i j.
Proof. unfold mat. rewrite to_list_mmap. symmetry. apply of_list_map. Qed.

(* the form used when the argument is a compound expression *)
Lemma mat_morph_pt n m (A : @M K1) (A' : @M K2) :
  (forall i j, phi (A i j) = A' i j) -> forall i j, phi (mat n m A i j) = mat n m A' i j.
Proof.
  intros H i j. change (phi (mat n m A i j)) with (mmap phi (mat n m A) i j).
  rewrite mmap_mat. unfold mat. f_equal. unfold to_list. apply map_ext. intros a.
  apply map_ext. intros b. apply H.
Qed.

(* ------------------------------------------------------------------ determinant *)
Lemma remove_nth_map {T U} (g : T -> U) : forall k l,
  remove_nth k (map g l) = map g (remove_nth k l).
Proof.
  intros k l. revert k. induction l as [|x l IH]; intros k; [destruct k; reflexivity|].
  destruct k as [|k]; cbn [map remove_nth]; [reflexivity|]. rewrite IH. reflexivity.
Qed.

Lemma lap_go_morph (D : nat -> @car K1) (D' : nat -> @car K2) :
  (forall k, phi (D k) = D' k) ->
  forall rs k sign acc,
    phi (lap_go D k sign acc rs) = lap_go D' k sign (phi acc) (map (map phi) rs).
Proof.
  intros HD rs. induction rs as [|r rs IH]; intros k sign acc; [reflexivity|].
  cbn [map lap_go]. rewrite IH. f_equal.
  assert (Hh : hd f0 (map phi r) = phi (hd f0 r)).
  { destruct r; [symmetry; apply phi_0|reflexivity]. }
  rewrite Hh, <- HD. destruct sign; [rewrite phi_sub|rewrite phi_add]; rewrite phi_mul; reflexivity.
Qed.

Lemma det_fuel_morph f : forall rows,
  phi (det_fuel f rows) = det_fuel f (map (map phi) rows).
Proof.
  induction f as [|f IH]; intros rows; [apply phi_1|].
  destruct rows as [|r rows]; [apply phi_1|].
  rewrite det_fuel_S by discriminate.
  change (map (map phi) (r :: rows)) with (map phi r :: map (map phi) rows).
  rewrite det_fuel_S by discriminate.
  rewrite (lap_go_morph _ (fun k => det_fuel f (map (@tl _) (remove_nth k (map phi r :: map (map phi) rows))))).
  - rewrite phi_0. reflexivity.
  - intros k. rewrite IH. f_equal.
    change (map phi r :: map (map phi) rows) with (map (map phi) (r :: rows)).
    rewrite remove_nth_map, !map_map. apply map_ext. intros a. destruct a; reflexivity.
Qed.

Theorem phi_det n A : phi (det n A) = det n (mmap phi A).
Proof.
  unfold det, det_list. rewrite to_list_mmap, map_length. apply det_fuel_morph.
Qed.

(* ------------------------------------------------------------------ relations are preserved *)
Lemma mmap_meq m n A B : meq m n A B -> meq m n (mmap phi A) (mmap phi B).
Proof. intros H i j Hi Hj. unfold mmap. rewrite H by assumption. reflexivity. Qed.

Lemma mmap_ext_meq m n (A : @M K1) (A' : @M K2) :
  (forall i j, phi (A i j) = A' i j) -> meq m n (mmap phi A) A'.
Proof. intros H i j _ _. apply H. Qed.

Lemma det_morph_pt n (A : @M K1) (A' : @M K2) :
  (forall i j, phi (A i j) = A' i j) -> phi (det n A) = det n A'.
Proof. intros H. rewrite phi_det. apply det_ext. apply mmap_ext_meq. exact H. Qed.

Lemma mmap_is_inverse n A Ai :
  is_inverse n A Ai -> is_inverse n (mmap phi A) (mmap phi Ai).
Proof.
  intros [H1 H2]. split; intros i j Hi Hj; rewrite <- mmap_mmul, <- mmap_mI; unfold mmap;
    [rewrite H1|rewrite H2]; auto.
Qed.

Lemma mmap_symmetric n A : symmetric n A -> symmetric n (mmap phi A).
Proof. intros H i j Hi Hj. unfold mmap, mT. rewrite (H i j) by assumption. reflexivity. Qed.

Lemma mmap_tri_lower n A : tri_lower n A -> tri_lower n (mmap phi A).
Proof.
  intros H i j Hi Hj Hij. unfold mmap. rewrite (H i j) by assumption. apply phi_0.
Qed.
Lemma mmap_tri_upper n A : tri_upper n A -> tri_upper n (mmap phi A).
Proof.
  intros H i j Hi Hj Hij. unfold mmap. rewrite (H i j) by assumption. apply phi_0.
Qed.

(* a certificate-checked inverse in K1 maps to an inverse of ANY K2 matrix that agrees with
   the image of the K1 matrix on the n x n corner *)
Lemma morph_inverse_of n (A Ai : @M K1) (A' : @M K2) :
  is_inverse n A Ai -> meq n n (mmap phi A) A' -> is_inverse n A' (mmap phi Ai).
Proof.
  intros H HA. apply mmap_is_inverse in H. destruct H as [H1 H2]. split.
  - transitivity (mmul n (mmap phi A) (mmap phi Ai)); [|exact H1].
    apply mmul_compat_l. symmetry. exact HA.
  - transitivity (mmul n (mmap phi Ai) (mmap phi A)); [|exact H2].
    apply mmul_compat_r. symmetry. exact HA.
Qed.

(* ------------------------------------------------------------------ ... and reflected *)
Section Injective.
Hypothesis phi_inj : forall x y, phi x = phi y -> x = y.

Lemma mmap_meq_inv m n A B : meq m n (mmap phi A) (mmap phi B) -> meq m n A B.
Proof. intros H i j Hi Hj. apply phi_inj. apply (H i j Hi Hj). Qed.

Lemma mmap_is_inverse_inv n A Ai :
  is_inverse n (mmap phi A) (mmap phi Ai) -> is_inverse n A Ai.
Proof.
  intros [H1 H2]. split; intros i j Hi Hj; apply phi_inj;
    change (mmap phi (mmul n A Ai) i j = mmap phi mI i j)
      || change (mmap phi (mmul n Ai A) i j = mmap phi mI i j);
    rewrite mmap_mmul, mmap_mI; [apply H1|apply H2]; assumption.
Qed.

Lemma mmap_symmetric_inv n A : symmetric n (mmap phi A) -> symmetric n A.
Proof. intros H i j Hi Hj. apply phi_inj. apply (H i j Hi Hj). Qed.

Lemma phi_det_neq0 n A : det n A <> f0 <-> det n (mmap phi A) <> f0.
Proof.
  rewrite <- phi_det. split; intros H E; apply H.
  - apply phi_inj. rewrite E. symmetry. apply phi_0.
  - rewrite E. apply phi_0.
Qed.
End Injective.

(* a field morphism is injective as soon as equality with 0 is decidable in the source *)
Lemma morph_injective :
  (forall x : @car K1, x = f0 \/ x <> f0) -> forall x y, phi x = phi y -> x = y.
Proof.
  intros dec x y H.
  pose proof (@FT K1) as F1. pose proof (@FT K2) as F2.
  destruct (dec (fsub x y)) as [E|NE].
  - pose proof (Radd_0_l (F_R F1)) as A0. pose proof (Rsub_def (F_R F1)) as SD.
    pose proof (Radd_assoc (F_R F1)) as AA. pose proof (Ropp_def (F_R F1)) as OD.
    pose proof (Radd_comm (F_R F1)) as AC.
    (* x = (x - y) + y *)
    transitivity (fadd (fsub x y) y).
    + rewrite SD. rewrite <- AA. rewrite (AC (fopp y) y), OD. rewrite AC. symmetry. apply A0.
    + rewrite E. apply A0.
  - exfalso. apply (F_1_neq_0 F2).
    rewrite <- (phi_1 (phi := phi)). rewrite <- (Finv_l F1 _ NE). rewrite (phi_mul (phi := phi)), (phi_sub (phi := phi)), H.
    pose proof (Rsub_def (F_R F2)) as SD. pose proof (Ropp_def (F_R F2)) as OD.
    rewrite SD, OD.
    (* a * 0 = 0 in K2 *)
    pose proof (@FT K2) as F2'.
    assert (Z : forall a : @car K2, fmul a f0 = f0).
    { intros a. pose proof (Rmul_comm (F_R F2)) as MC. pose proof (Radd_0_l (F_R F2)) as A0.
      pose proof (Rdistr_l (F_R F2)) as DL. pose proof (Radd_assoc (F_R F2)) as AA.
      pose proof (Radd_comm (F_R F2)) as AC.
      (* a*0 = a*0 + (a*0 + -(a*0)) = (a*0 + a*0) + -(a*0) = a*(0+0) + -(a*0) = a*0 + -(a*0) = 0 *)
      assert (E0 : fmul a f0 = fadd (fmul a f0) (fmul a f0)).
      { rewrite (MC a f0). rewrite <- DL. rewrite A0. reflexivity. }
      transitivity (fadd (fadd (fmul a f0) (fmul a f0)) (fopp (fmul a f0))).
      - rewrite <- AA. rewrite OD. rewrite AC, A0. reflexivity.
      - rewrite <- E0. apply OD. }
    apply Z.
Qed.

End Morph.

(* morphisms compose; the identity is a morphism *)
Lemma FldMorph_id (K : Fld) : FldMorph K K (fun x => x).
Proof. split; reflexivity. Qed.

Lemma FldMorph_comp (K1 K2 K3 : Fld) f g :
  FldMorph K1 K2 f -> FldMorph K2 K3 g -> FldMorph K1 K3 (fun x => g (f x)).
Proof.
  intros Hf Hg. split; intros.
  - rewrite (phi_0 (phi := f)). apply phi_0.
  - rewrite (phi_1 (phi := f)). apply phi_1.
  - rewrite (phi_add (phi := f)). apply phi_add.
  - rewrite (phi_mul (phi := f)). apply phi_mul.
  - rewrite (phi_sub (phi := f)). apply phi_sub.
  - rewrite (phi_opp (phi := f)). apply phi_opp.
  - rewrite (phi_div (phi := f)). apply phi_div.
  - rewrite (phi_inv (phi := f)). apply phi_inv.
Qed.

(* ------------------------------------------------------------------ Q2R' : QcF -> RF *)
Lemma Q2R'_zero : Q2R' 0%Qc = 0%R.
Proof. unfold Q2R', Q2R. cbn. lra. Qed.
Lemma Q2R'_one : Q2R' 1%Qc = 1%R.
Proof. unfold Q2R', Q2R. cbn. lra. Qed.

Lemma Q2R'_inj x y : Q2R' x = Q2R' y -> x = y.
Proof. intros H. apply Qc_is_canon. apply eqR_Qeq. exact H. Qed.

Lemma Q2R'_inv x : Q2R' (/ x)%Qc = (/ Q2R' x)%R.
Proof.
  destruct (Qc_eq_dec x 0%Qc) as [->|Hx].
  - change (/ 0)%Qc with 0%Qc. rewrite Q2R'_zero. symmetry. apply Rinv_0.
  - unfold Q2R'. unfold Qcinv. cbn [this Q2Qc]. rewrite <- Q2R_inv.
    + apply Qeq_eqR. apply Qred_correct.
    + intros H. apply Hx. apply Qc_is_canon. exact H.
Qed.

Lemma Q2R'_div_total x y : Q2R' (x / y)%Qc = (Q2R' x / Q2R' y)%R.
Proof. unfold Qcdiv. rewrite Q2R'_mult, Q2R'_inv. reflexivity. Qed.

Lemma Q2R'_qc_lit a b : Q2R' (qc a b) = (IZR a / IZR (Zpos b))%R.
Proof.
  unfold Q2R', qc. cbn [this Q2Qc]. rewrite (Qeq_eqR _ _ (Qred_correct (a # b))). reflexivity.
Qed.

Global Instance Q2R_morph : FldMorph QcF RF Q2R'.
Proof.
  split.
  - exact Q2R'_zero.
  - exact Q2R'_one.
  - exact Q2R'_plus.
  - exact Q2R'_mult.
  - exact Q2R'_minus.
  - exact Q2R'_opp.
  - exact Q2R'_div_total.
  - exact Q2R'_inv.
Qed.

(* the real image of a rational matrix *)
Definition mapR (A : @M QcF) : @M RF := @mmap QcF RF Q2R' A.

(* reflection instances *)
Lemma Q2R_is_inverse_iff n (A Ai : @M QcF) :
  is_inverse n A Ai <-> is_inverse n (mapR A) (mapR Ai).
Proof.
  split; [apply (@mmap_is_inverse QcF RF Q2R' _)|apply (@mmap_is_inverse_inv QcF RF Q2R' _ Q2R'_inj)].
Qed.

(* the executable inverse: whatever [inv_checked] returns is, after mapping, a two-sided real
   inverse of the mapped matrix *)
Lemma inv_checked_real n (A Ai : @M QcF) :
  inv_checked n A = Some Ai -> is_inverse n (mapR A) (mapR Ai).
Proof. intros H. apply (@mmap_is_inverse QcF RF Q2R' _). apply inv_checked_sound. exact H. Qed.

(* order is preserved as well (used to transport positivity of printed determinants) *)
Lemma Q2R'_lt a b : (a < b)%Qc -> (Q2R' a < Q2R' b)%R.
Proof. unfold Qclt, Q2R'. apply Qlt_Rlt. Qed.
Lemma Q2R'_le a b : (a <= b)%Qc -> (Q2R' a <= Q2R' b)%R.
Proof. unfold Qcle, Q2R'. apply Qle_Rle. Qed.
Lemma Q2R'_lt_inv a b : (Q2R' a < Q2R' b)%R -> (a < b)%Qc.
Proof. unfold Qclt, Q2R'. apply Rlt_Qlt. Qed.
Lemma Q2R'_le_inv a b : (Q2R' a <= Q2R' b)%R -> (a <= b)%Qc.
Proof. unfold Qcle, Q2R'. apply Rle_Qle. Qed.

(* ------------------------------------------------------------------ tactic
   [morph_pt]: prove  phi (F i j) = F' i j  where F, F' are the same generic expression
   instantiated at K1 / K2 on mapped inputs, after the caller has unfolded the model's own
   definitions.  It recurses through the LinAlg / Exec operations structurally. *)
Ltac morph_unfold :=
  unfold madd, msub, mopp, mscale, mT, mzero, mI, mmul, mdiag, sub, blk, vstack, hstack, gather in *.

(* [morph_hook] is tried first at every node; models with their own leaf operations redefine it
   ([Ltac morph_hook ::= ...]) and may call [morph_rec] again *)
Ltac morph_hook := fail.

Ltac morph_rec :=
  first [ morph_hook |
  lazymatch goal with
  | |- ?phi (@sum _ _ _) = _ => rewrite (phi_sum phi); apply sum_ext; intros; morph_rec
  | |- ?phi (@lsum _ _ _) = _ => rewrite (phi_lsum phi); morph_rec
  | |- ?phi (@fadd _ _ _) = _ => rewrite (phi_add (phi := phi)); f_equal; morph_rec
  | |- ?phi (@fmul _ _ _) = _ => rewrite (phi_mul (phi := phi)); f_equal; morph_rec
  | |- ?phi (@fsub _ _ _) = _ => rewrite (phi_sub (phi := phi)); f_equal; morph_rec
  | |- ?phi (@fdiv _ _ _) = _ => rewrite (phi_div (phi := phi)); f_equal; morph_rec
  | |- ?phi (@fopp _ _) = _ => rewrite (phi_opp (phi := phi)); f_equal; morph_rec
  | |- ?phi (@finv _ _) = _ => rewrite (phi_inv (phi := phi)); f_equal; morph_rec
  | |- ?phi (@f0 _) = _ => apply (phi_0 (phi := phi))
  | |- ?phi (@f1 _) = _ => apply (phi_1 (phi := phi))
  | |- ?phi (@mat _ _ _ _ _ _) = _ => apply (mat_morph_pt phi); intros; morph_rec
  | |- ?phi (@det _ _ _) = _ => apply (det_morph_pt phi); intros; morph_rec
  | |- ?phi (if ?b then _ else _) = _ => destruct b; morph_rec
  | |- _ => first [reflexivity | idtac]
  end ].

Ltac morph_pt := morph_unfold; cbv zeta; morph_rec.
