(* Determinant theory for the Laplace-expansion [det] of Base/Exec.v, over any [Fld].
   1. [det] (defined on lists of rows, with fuel) is the textbook recursion [detF]: expansion
      along the first column of the function matrix ([det_detF]);
   2. [det] is linear in every row, vanishes when two rows coincide, changes sign when two rows
      are exchanged;
   3. triangular matrices: det = product of the diagonal; det I = 1;
   4. FULL multiplicativity det (A B) = det A * det B (every n, every A B), hence
      det (T T^T) = (prod diag T)^2 for triangular T, determinants of inverses, of
      permutation-conjugated matrices and of bordered matrices (Schur complement).
   No axioms. *)
From Coq Require Import Arith Lia Ring Field Bool List Setoid Morphisms QArith Qcanon.
From GPV Require Import Base.LinAlg Base.Exec.
Import ListNotations.

(* the inner loop of [det_fuel] as a named function (convertible to the anonymous [fix]) *)
Section LapGo.
Context {K : Fld}.
Local Open Scope fld_scope.
Variable D : nat -> car.
Fixpoint lap_go (k : nat) (sign : bool) (acc : car) (rs : list (list car)) {struct rs} : car :=
  match rs with
  | [] => acc
  | r :: rest =>
      lap_go (S k) (negb sign) (if sign then acc - hd 0 r * D k else acc + hd 0 r * D k) rest
  end.
End LapGo.

Section Det.
Context {K : Fld}.
Add Field Ff_det : (@FT K).
Local Open Scope fld_scope.

(* ------------------------------------------------------------------ det = textbook recursion *)

Definition skip (k i : nat) : nat := if Nat.ltb i k then i else S i.
(* delete row k and column 0 *)
Definition minor (k : nat) (A : M) : M := fun i j => A (skip k i) (S j).
Definition sgn (k : nat) : car := if Nat.odd k then - (1) else 1.

Fixpoint detF (n : nat) (A : M) : car :=
  match n with
  | O => 1
  | S m => sum (S m) (fun k => sgn k * A k O * detF m (minor k A))
  end.

Lemma det_fuel_S f rows : rows <> [] ->
  det_fuel (S f) rows
  = lap_go (fun k => det_fuel f (map (@tl car) (remove_nth k rows))) 0 false 0 rows.
Proof. destruct rows; [congruence|reflexivity]. Qed.

Lemma lap_go_sum D (row : nat -> list car) m : forall k acc,
  lap_go D k (Nat.odd k) acc (map row (seq k m))
  = acc + sum m (fun i => sgn (k + i) * hd 0 (row (k + i)%nat) * D (k + i)%nat).
Proof.
  induction m as [|m IH]; intros k acc.
  - cbn [seq map lap_go sum]. ring.
  - cbn [seq map lap_go]. rewrite Nat.negb_odd, <- Nat.odd_succ. rewrite IH.
    rewrite sum_S_first. rewrite Nat.add_0_r.
    rewrite (sum_ext m (fun i => sgn (S k + i) * hd 0 (row (S k + i)%nat) * D (S k + i)%nat)
                       (fun i => sgn (k + S i) * hd 0 (row (k + S i)%nat) * D (k + S i)%nat))
      by (intros i _; replace (S k + i)%nat with (k + S i)%nat by lia; reflexivity).
    unfold sgn at 2. destruct (Nat.odd k); ring.
Qed.

Lemma to_list_length n m A : length (to_list n m A) = n.
Proof. unfold to_list. rewrite map_length, seq_length. reflexivity. Qed.

Lemma remove_nth_map_seq {T} n : forall (f : nat -> T) k, (k <= n)%nat ->
  remove_nth k (map f (seq 0 (S n))) = map (fun i => f (skip k i)) (seq 0 n).
Proof.
  induction n as [|n IH]; intros f k Hk.
  - assert (k = O) by lia. subst k. reflexivity.
  - destruct k as [|k].
    + change (remove_nth 0 (map f (seq 0 (S (S n))))) with (map f (seq 1 (S n))).
      rewrite <- seq_shift, map_map. apply map_ext. reflexivity.
    + transitivity (f O :: remove_nth k (map (fun i => f (S i)) (seq 0 (S n)))).
      { change (seq 0 (S (S n))) with (0%nat :: seq 1 (S n)). cbn [map remove_nth].
        rewrite <- seq_shift, map_map. reflexivity. }
      rewrite (IH (fun i => f (S i)) k) by lia.
      change (seq 0 (S n)) with (0%nat :: seq 1 n). cbn [map].
      rewrite <- seq_shift, map_map. f_equal. apply map_ext. intros a. unfold skip.
      change (S a <? S k)%nat with (a <? k)%nat. destruct (a <? k)%nat; reflexivity.
Qed.

Lemma minor_to_list n A k : (k <= n)%nat ->
  map (@tl car) (remove_nth k (to_list (S n) (S n) A)) = to_list n n (minor k A).
Proof.
  intros Hk. unfold to_list. rewrite remove_nth_map_seq by exact Hk. rewrite map_map.
  apply map_ext. intros i. change (seq 0 (S n)) with (0%nat :: seq 1 n). cbn [map tl].
  rewrite <- seq_shift, map_map. reflexivity.
Qed.

Theorem det_detF n : forall A, det n A = detF n A.
Proof.
  induction n as [|n IH]; intros A; [reflexivity|].
  unfold det, det_list. rewrite to_list_length.
  rewrite det_fuel_S by (unfold to_list; cbn [seq map]; discriminate).
  unfold to_list at 2.
  change false with (Nat.odd 0).
  rewrite (lap_go_sum _ (fun i => map (fun j => A i j) (seq 0 (S n))) (S n) O 0).
  cbn [detF]. rewrite (sum_ext (S n) _ (fun k => sgn k * A k O * detF n (minor k A))); [ring|].
  intros i Hi. cbn [Nat.add]. rewrite minor_to_list by lia.
  rewrite <- IH. unfold det, det_list. rewrite to_list_length. reflexivity.
Qed.

(* ------------------------------------------------------------------ extensionality *)

Ltac skip_tac :=
  unfold skip in *;
  repeat match goal with
  | |- context [Nat.ltb ?a ?b] => destruct (Nat.ltb_spec a b)
  | H : context [Nat.ltb ?a ?b] |- _ => destruct (Nat.ltb_spec a b)
  end; try lia.

Lemma minor_ext n k A B : (k <= n)%nat ->
  meq (S n) (S n) A B -> meq n n (minor k A) (minor k B).
Proof. intros Hk H i j Hi Hj. unfold minor. apply H; skip_tac. Qed.

Lemma detF_ext n : forall A B, meq n n A B -> detF n A = detF n B.
Proof.
  induction n as [|n IH]; intros A B H; [reflexivity|]. cbn [detF].
  apply sum_ext. intros k Hk. rewrite (H k O) by lia.
  rewrite (IH (minor k A) (minor k B)); [reflexivity|]. apply minor_ext; [lia|exact H].
Qed.

Lemma det_ext n A B : meq n n A B -> det n A = det n B.
Proof. rewrite !det_detF. apply detF_ext. Qed.

Lemma sgn_S k : sgn (S k) = - sgn k.
Proof. unfold sgn. rewrite Nat.odd_succ, <- Nat.negb_odd. destruct (Nat.odd k); cbn [negb]; ring. Qed.

Lemma sum_pair n a b f : (a < b)%nat -> (b < n)%nat ->
  (forall i, (i < n)%nat -> i <> a -> i <> b -> f i = 0) -> sum n f = f a + f b.
Proof.
  induction n as [|n IH]; intros Hab Hb H; [lia|]. cbn [sum].
  destruct (Nat.eq_dec b n) as [->|Hne].
  - rewrite (sum_single n a); [reflexivity|lia|]. intros i Hi Hia. apply H; lia.
  - rewrite IH by (try lia; intros i Hi; apply H; lia). rewrite (H n) by lia. ring.
Qed.

(* ------------------------------------------------------------------ linearity in a row *)

Lemma detF_row_lin n : forall r a b A B C, (r < n)%nat ->
  (forall i j, (i < n)%nat -> (j < n)%nat -> i <> r -> B i j = A i j /\ C i j = A i j) ->
  (forall j, (j < n)%nat -> A r j = a * B r j + b * C r j) ->
  detF n A = a * detF n B + b * detF n C.
Proof.
  induction n as [|n IH]; intros r a b A B C Hr Hoth Hrow; [lia|]. cbn [detF].
  rewrite <- !sum_scale_l, <- sum_add. apply sum_ext. intros k Hk.
  destruct (Nat.eq_dec k r) as [->|Hne].
  - rewrite (Hrow O) by lia.
    rewrite (detF_ext n (minor r B) (minor r A)), (detF_ext n (minor r C) (minor r A)); [ring| |];
      intros i j Hi Hj; unfold minor; apply Hoth; skip_tac.
  - destruct (Hoth k O) as [E1 E2]; try lia. rewrite E1, E2.
    rewrite (IH (if Nat.ltb r k then r else (r - 1)%nat) a b (minor k A) (minor k B) (minor k C)); [ring| | |].
    + destruct (Nat.ltb_spec r k); lia.
    + intros i j Hi Hj Hir. unfold minor. apply Hoth; skip_tac.
    + intros j Hj. unfold minor.
      replace (skip k (if Nat.ltb r k then r else (r - 1)%nat)) with r by skip_tac.
      apply Hrow; lia.
Qed.

(* ------------------------------------------------------------------ alternation *)

Lemma detF_adj_eq n : forall r A, (S r < n)%nat ->
  (forall j, (j < n)%nat -> A r j = A (S r) j) -> detF n A = 0.
Proof.
  induction n as [|n IH]; intros r A Hr H; [lia|]. cbn [detF].
  rewrite (sum_pair (S n) r (S r)); [|lia|lia|].
  - rewrite (detF_ext n (minor (S r) A) (minor r A)).
    + rewrite (H O) by lia. rewrite sgn_S. ring.
    + intros i j Hi Hj. unfold minor. skip_tac; try reflexivity.
      replace i with r by lia. apply H; lia.
  - intros k Hk Hk1 Hk2.
    rewrite (IH (if Nat.ltb k r then (r - 1)%nat else r) (minor k A)); [ring| |].
    + destruct (Nat.ltb_spec k r); lia.
    + intros j Hj. unfold minor.
      replace (skip k (if Nat.ltb k r then (r - 1)%nat else r)) with r by skip_tac.
      replace (skip k (S (if Nat.ltb k r then (r - 1)%nat else r))) with (S r) by skip_tac.
      apply H; lia.
Qed.

Lemma detF_adj_swap n : forall r A B, (S r < n)%nat ->
  (forall i j, (i < n)%nat -> (j < n)%nat -> i <> r -> i <> S r -> B i j = A i j) ->
  (forall j, (j < n)%nat -> B r j = A (S r) j) ->
  (forall j, (j < n)%nat -> B (S r) j = A r j) ->
  detF n B + detF n A = 0.
Proof.
  induction n as [|n IH]; intros r A B Hr Hoth H1 H2; [lia|]. cbn [detF].
  rewrite <- sum_add. rewrite (sum_pair (S n) r (S r)); [|lia|lia|].
  - rewrite (detF_ext n (minor r B) (minor (S r) A)), (detF_ext n (minor (S r) B) (minor r A)).
    + rewrite (H1 O), (H2 O) by lia. rewrite sgn_S. ring.
    + intros i j Hi Hj. unfold minor. skip_tac.
      * apply Hoth; lia.
      * replace i with r by lia. apply H1; lia.
      * apply Hoth; lia.
    + intros i j Hi Hj. unfold minor. skip_tac.
      * apply Hoth; lia.
      * replace i with r by lia. apply H2; lia.
      * apply Hoth; lia.
  - intros k Hk Hk1 Hk2. rewrite (Hoth k O) by lia.
    assert (E : detF n (minor k B) + detF n (minor k A) = 0).
    { apply (IH (if Nat.ltb k r then (r - 1)%nat else r)).
      + destruct (Nat.ltb_spec k r); lia.
      + intros i j Hi Hj Hi1 Hi2. unfold minor. apply Hoth; skip_tac.
      + intros j Hj. unfold minor.
        replace (skip k (if Nat.ltb k r then (r - 1)%nat else r)) with r by skip_tac.
        replace (skip k (S (if Nat.ltb k r then (r - 1)%nat else r))) with (S r) by skip_tac.
        apply H1; lia.
      + intros j Hj. unfold minor.
        replace (skip k (if Nat.ltb k r then (r - 1)%nat else r)) with r by skip_tac.
        replace (skip k (S (if Nat.ltb k r then (r - 1)%nat else r))) with (S r) by skip_tac.
        apply H2; lia. }
    transitivity (sgn k * A k O * (detF n (minor k B) + detF n (minor k A))); [ring|].
    rewrite E. ring.
Qed.

(* exchange of two indices *)
Definition tr (a b i : nat) : nat := if Nat.eqb i a then b else if Nat.eqb i b then a else i.
Definition rowmap (g : nat -> nat) (A : M) : M := fun i j => A (g i) j.

Ltac eqb_tac :=
  repeat match goal with
  | |- context [Nat.eqb ?a ?b] => destruct (Nat.eqb_spec a b)
  | H : context [Nat.eqb ?a ?b] |- _ => destruct (Nat.eqb_spec a b)
  end; try lia.

Lemma detF_eq_rows n A p q : (p < q)%nat -> (q < n)%nat ->
  (forall j, (j < n)%nat -> A p j = A q j) -> detF n A = 0.
Proof.
  intros Hpq Hq. remember (q - p - 1)%nat as d eqn:Hd.
  revert A p q Hpq Hq Hd. induction d as [|d IH]; intros A p q Hpq Hq Hd H.
  - replace q with (S p) in * by lia. apply (detF_adj_eq n p A); assumption.
  - pose (B := rowmap (tr (q - 1) q) A).
    assert (Hsw : detF n B + detF n A = 0).
    { apply (detF_adj_swap n (q - 1)%nat A B).
      - lia.
      - intros i j Hi Hj H1 H2. unfold B, rowmap, tr. eqb_tac. reflexivity.
      - intros j Hj. unfold B, rowmap, tr. eqb_tac. f_equal. lia.
      - intros j Hj. unfold B, rowmap, tr. eqb_tac. reflexivity. }
    assert (HB : detF n B = 0).
    { apply (IH B p (q - 1)%nat); try lia.
      intros j Hj. unfold B, rowmap, tr. eqb_tac. apply H. exact Hj. }
    rewrite HB in Hsw. rewrite <- Hsw. ring.
Qed.

Definition setrow (r : nat) (v : nat -> car) (A : M) : M :=
  fun i j => if Nat.eqb i r then v j else A i j.

Lemma detF_swap n A B p q : (p < q)%nat -> (q < n)%nat ->
  (forall i j, (i < n)%nat -> (j < n)%nat -> i <> p -> i <> q -> B i j = A i j) ->
  (forall j, (j < n)%nat -> B p j = A q j) ->
  (forall j, (j < n)%nat -> B q j = A p j) ->
  detF n B + detF n A = 0.
Proof.
  intros Hpq Hq Hoth H1 H2.
  pose (s := fun j => A p j + A q j).
  pose (S0 := setrow p s (setrow q s A)).
  pose (X := setrow p s (setrow q (A p) A)).
  pose (Y := setrow p s A).
  pose (X1 := setrow q (A p) A).
  pose (Y2 := setrow p (A q) A).
  assert (E0 : detF n S0 = 0).
  { apply (detF_eq_rows n S0 p q Hpq Hq). intros j Hj. unfold S0, setrow. eqb_tac. reflexivity. }
  assert (EX1 : detF n X1 = 0).
  { apply (detF_eq_rows n X1 p q Hpq Hq). intros j Hj. unfold X1, setrow. eqb_tac. reflexivity. }
  assert (EY2 : detF n Y2 = 0).
  { apply (detF_eq_rows n Y2 p q Hpq Hq). intros j Hj. unfold Y2, setrow. eqb_tac. reflexivity. }
  assert (ES : detF n S0 = 1 * detF n X + 1 * detF n Y).
  { apply (detF_row_lin n q); [lia| |].
    - intros i j Hi Hj Hiq. unfold X, Y, S0, setrow. eqb_tac; split; reflexivity.
    - intros j Hj. unfold X, Y, S0, setrow, s. eqb_tac. ring. }
  assert (EX : detF n X = 1 * detF n X1 + 1 * detF n B).
  { apply (detF_row_lin n p); [lia| |].
    - intros i j Hi Hj Hip. unfold X, X1, setrow. eqb_tac.
      + split; [reflexivity|]. subst i. apply H2; exact Hj.
      + split; [reflexivity|]. apply Hoth; assumption.
    - intros j Hj. unfold X, X1, setrow, s. eqb_tac. rewrite (H1 j Hj). ring. }
  assert (EY : detF n Y = 1 * detF n A + 1 * detF n Y2).
  { apply (detF_row_lin n p); [lia| |].
    - intros i j Hi Hj Hip. unfold Y, Y2, setrow. eqb_tac. split; reflexivity.
    - intros j Hj. unfold Y, Y2, setrow, s. eqb_tac. ring. }
  rewrite EX1 in EX. rewrite EY2 in EY. rewrite EX, EY in ES. rewrite E0 in ES.
  transitivity (1 * (1 * 0 + 1 * detF n B) + 1 * (1 * detF n A + 1 * 0)); [ring|].
  symmetry. exact ES.
Qed.

(* a zero row *)
Lemma detF_zero_row n A r : (r < n)%nat -> (forall j, (j < n)%nat -> A r j = 0) -> detF n A = 0.
Proof.
  intros Hr H.
  transitivity (0 * detF n A + 0 * detF n A); [|ring].
  apply (detF_row_lin n r); [exact Hr| |].
  - intros; split; reflexivity.
  - intros j Hj. rewrite (H j Hj). ring.
Qed.

(* expansion of a row that is a finite linear combination *)
Lemma detF_row_sum n r A m (c : nat -> car) (F : nat -> M) : (r < n)%nat ->
  (forall l i j, (l < m)%nat -> (i < n)%nat -> (j < n)%nat -> i <> r -> F l i j = A i j) ->
  (forall j, (j < n)%nat -> A r j = sum m (fun l => c l * F l r j)) ->
  detF n A = sum m (fun l => c l * detF n (F l)).
Proof.
  intros Hr. revert A. induction m as [|m IH]; intros A Hoth Hrow.
  - cbn [sum]. apply (detF_zero_row n A r Hr). intros j Hj. rewrite (Hrow j Hj). reflexivity.
  - cbn [sum].
    pose (A' := setrow r (fun j => sum m (fun l => c l * F l r j)) A).
    rewrite <- (IH A').
    + transitivity (1 * detF n A' + c m * detF n (F m)); [|ring].
      apply (detF_row_lin n r); [exact Hr| |].
      * intros i j Hi Hj Hir. unfold A', setrow. eqb_tac. split; [reflexivity|].
        apply Hoth; try assumption. lia.
      * intros j Hj. rewrite (Hrow j Hj). cbn [sum]. unfold A', setrow. rewrite Nat.eqb_refl. ring.
    + intros l i j Hl Hi Hj Hir. unfold A', setrow. eqb_tac. apply Hoth; try assumption. lia.
    + intros j Hj. unfold A', setrow. rewrite Nat.eqb_refl. reflexivity.
Qed.

(* ------------------------------------------------------------------ triangular matrices *)

Fixpoint dprod (n : nat) (f : nat -> car) : car :=
  match n with
  | O => 1
  | S k => dprod k f * f k
  end.
Definition tri_lower (n : nat) (A : M) : Prop :=
  forall i j, (i < n)%nat -> (j < n)%nat -> (i < j)%nat -> A i j = 0.
Definition tri_upper (n : nat) (A : M) : Prop :=
  forall i j, (i < n)%nat -> (j < n)%nat -> (j < i)%nat -> A i j = 0.

Lemma dprod_ext n f g : (forall i, (i < n)%nat -> f i = g i) -> dprod n f = dprod n g.
Proof.
  induction n as [|n IH]; intros H; cbn [dprod]; [reflexivity|].
  rewrite IH by (intros i Hi; apply H; lia). rewrite H by lia. reflexivity.
Qed.
Lemma dprod_mul n f g : dprod n (fun i => f i * g i) = dprod n f * dprod n g.
Proof. induction n as [|n IH]; cbn [dprod]; [ring|]. rewrite IH. ring. Qed.
Lemma dprod_one n f : (forall i, (i < n)%nat -> f i = 1) -> dprod n f = 1.
Proof.
  induction n as [|n IH]; intros H; cbn [dprod]; [reflexivity|].
  rewrite IH by (intros i Hi; apply H; lia). rewrite H by lia. ring.
Qed.
Lemma dprod_S_first n f : dprod (S n) f = f O * dprod n (fun i => f (S i)).
Proof.
  induction n as [|n IH]; [cbn [dprod]; ring|].
  change (dprod (S (S n)) f) with (dprod (S n) f * f (S n)). rewrite IH. cbn [dprod]. ring.
Qed.

(* when only the (0,0) term of the first-column expansion survives *)
Lemma detF_first n A :
  (forall k, (0 < k)%nat -> (k < S n)%nat -> A k O = 0 \/ detF n (minor k A) = 0) ->
  detF (S n) A = A O O * detF n (minor O A).
Proof.
  intros H. cbn [detF]. rewrite (sum_single (S n) O); [|lia|].
  - change (sgn 0) with f1. ring.
  - intros k Hk Hk0. destruct (H k) as [E|E]; try lia; rewrite E; ring.
Qed.

Lemma minor0 A i j : minor O A i j = A (S i) (S j).
Proof. reflexivity. Qed.

Lemma detF_upper n : forall A, tri_upper n A -> detF n A = dprod n (fun i => A i i).
Proof.
  induction n as [|n IH]; intros A H; [reflexivity|].
  rewrite detF_first.
  - rewrite (IH (minor O A)).
    + rewrite dprod_S_first. reflexivity.
    + intros i j Hi Hj Hij. rewrite minor0. apply H; lia.
  - intros k Hk0 Hk. left. apply H; lia.
Qed.

Lemma detF_lower n : forall A, tri_lower n A -> detF n A = dprod n (fun i => A i i).
Proof.
  induction n as [|n IH]; intros A H; [reflexivity|].
  rewrite detF_first.
  - rewrite (IH (minor O A)).
    + rewrite dprod_S_first. reflexivity.
    + intros i j Hi Hj Hij. rewrite minor0. apply H; lia.
  - intros k Hk0 Hk. right. apply (detF_zero_row n (minor k A) O); [lia|].
    intros j Hj. unfold minor. replace (skip k 0) with O by skip_tac. apply H; lia.
Qed.

Lemma detF_mI n : detF n mI = 1.
Proof.
  rewrite detF_upper.
  - apply dprod_one. intros i _. unfold mI. rewrite Nat.eqb_refl. reflexivity.
  - intros i j Hi Hj Hij. unfold mI. destruct (Nat.eqb_spec i j); [lia|reflexivity].
Qed.

(* ------------------------------------------------------------------ rows selected by a function *)

Lemma bsearch (P : nat -> bool) k :
  (exists i, (i < k)%nat /\ P i = true) \/ (forall i, (i < k)%nat -> P i = false).
Proof.
  induction k as [|k [[i [Hi HP]]|IH]].
  - right. intros i Hi. lia.
  - left. exists i. split; [lia|exact HP].
  - destruct (P k) eqn:E.
    + left. exists k. split; [lia|exact E].
    + right. intros i Hi. destruct (Nat.eq_dec i k) as [->|Hne]; [exact E|apply IH; lia].
Qed.

Lemma php k : forall g, (forall i, (i <= k)%nat -> (g i < k)%nat) ->
  exists i j, (i < j)%nat /\ (j <= k)%nat /\ g i = g j.
Proof.
  induction k as [|k IH]; intros g H.
  - specialize (H O (le_n 0)). lia.
  - destruct (bsearch (fun i => Nat.eqb (g i) (g (S k))) (S k)) as [[i [Hi HP]]|Hno].
    + exists i, (S k). apply Nat.eqb_eq in HP. repeat split; lia.
    + pose (g' := fun i => if Nat.ltb (g i) (g (S k)) then g i else (g i - 1)%nat).
      assert (Hne : forall i, (i <= k)%nat -> g i <> g (S k)).
      { intros i Hi. specialize (Hno i). apply Nat.eqb_neq. apply Hno. lia. }
      destruct (IH g') as [i [j [Hij [Hj E]]]].
      { intros i Hi. unfold g'. pose proof (H i). pose proof (H (S k)). pose proof (Hne i Hi).
        destruct (Nat.ltb_spec (g i) (g (S k))); lia. }
      exists i, j. repeat split; try lia.
      pose proof (Hne i). pose proof (Hne j). unfold g' in E.
      destruct (Nat.ltb_spec (g i) (g (S k))); destruct (Nat.ltb_spec (g j) (g (S k))); lia.
Qed.

Lemma detF_rowmap_eq n g X p q : (p < q)%nat -> (q < n)%nat -> g p = g q ->
  detF n (rowmap g X) = 0.
Proof.
  intros Hpq Hq E. apply (detF_eq_rows n _ p q Hpq Hq). intros j _. unfold rowmap. rewrite E. reflexivity.
Qed.

(* selecting rows by g multiplies the determinant by the determinant of the selection matrix *)
Lemma detF_rowmap n B : forall k g, (k <= n)%nat ->
  (forall i, (i < n)%nat -> (g i < n)%nat) ->
  (forall i, (k <= i)%nat -> (i < n)%nat -> g i = i) ->
  detF n (rowmap g B) = detF n (rowmap g mI) * detF n B.
Proof.
  induction k as [|k IH]; intros g Hk Hb Hfix.
  - rewrite (detF_ext n (rowmap g B) B), (detF_ext n (rowmap g mI) mI).
    + rewrite detF_mI. ring.
    + intros i j Hi Hj. unfold rowmap. rewrite Hfix by lia. reflexivity.
    + intros i j Hi Hj. unfold rowmap. rewrite Hfix by lia. reflexivity.
  - destruct (Nat.eq_dec (g k) k) as [Egk|Ngk].
    { apply IH; [lia|exact Hb|]. intros i Hi Hin.
      destruct (Nat.eq_dec i k) as [->|Hne]; [exact Egk|apply Hfix; lia]. }
    destruct (bsearch (fun j => Nat.eqb (g j) k) k) as [[j [Hj HP]]|Hno].
    + apply Nat.eqb_eq in HP.
      pose (g' := fun i => g (tr j k i)).
      assert (Hsw : forall X, detF n (rowmap g X) + detF n (rowmap g' X) = 0).
      { intros X. apply (detF_swap n (rowmap g' X) (rowmap g X) j k); [lia|lia| | |].
        - intros i c Hi Hc H1 H2. unfold rowmap, g', tr. eqb_tac. reflexivity.
        - intros c Hc. unfold rowmap, g', tr. eqb_tac. reflexivity.
        - intros c Hc. unfold rowmap, g', tr. eqb_tac. reflexivity. }
      assert (E' : detF n (rowmap g' B) = detF n (rowmap g' mI) * detF n B).
      { apply IH; [lia| |].
        - intros i Hi. unfold g', tr. eqb_tac; apply Hb; lia.
        - intros i Hi Hin. unfold g', tr. eqb_tac. apply Hfix; lia. }
      pose proof (Hsw B) as H1. pose proof (Hsw mI) as H2.
      transitivity (- detF n (rowmap g' B)).
      { transitivity ((detF n (rowmap g B) + detF n (rowmap g' B)) - detF n (rowmap g' B)); [ring|].
        rewrite H1. ring. }
      rewrite E'.
      transitivity (((detF n (rowmap g mI) + detF n (rowmap g' mI)) - detF n (rowmap g' mI)) * detF n B);
        [rewrite H2; ring|ring].
    + (* k is not a value of g on [0,k]: two rows coincide *)
      assert (Hnk : forall i, (i <= k)%nat -> g i <> k).
      { intros i Hi. destruct (Nat.eq_dec i k) as [->|Hne]; [exact Ngk|].
        apply Nat.eqb_neq. apply Hno. lia. }
      assert (Hdup : exists p q, (p < q)%nat /\ (q < n)%nat /\ g p = g q).
      { destruct (bsearch (fun i => Nat.ltb k (g i)) (S k)) as [[i [Hi HP]]|Hsmall].
        - apply Nat.ltb_lt in HP. exists i, (g i). repeat split; [lia|apply Hb; lia|].
          symmetry. apply Hfix; [lia|apply Hb; lia].
        - destruct (php k g) as [p [q [Hpq [Hq E]]]].
          + intros i Hi. specialize (Hsmall i). pose proof (Hnk i Hi).
            assert (Nat.ltb k (g i) = false) as F by (apply Hsmall; lia).
            apply Nat.ltb_ge in F. lia.
          + exists p, q. repeat split; [lia|lia|exact E]. }
      destruct Hdup as [p [q [Hpq [Hq E]]]].
      rewrite (detF_rowmap_eq n g B p q Hpq Hq E), (detF_rowmap_eq n g mI p q Hpq Hq E). ring.
Qed.

(* ------------------------------------------------------------------ multiplicativity *)

Lemma detF_mmul_aux n B : forall d k g A, (k + d = n)%nat ->
  (forall i, (i < k)%nat -> (g i < n)%nat) ->
  (forall i j, (i < k)%nat -> (j < n)%nat -> A i j = if Nat.eqb (g i) j then 1 else 0) ->
  detF n (mmul n A B) = detF n A * detF n B.
Proof.
  induction d as [|d IH]; intros k g A Hkd Hb Hunit.
  - assert (k = n) by lia. subst k.
    pose (g' := fun i => if Nat.ltb i n then g i else i).
    rewrite (detF_ext n (mmul n A B) (rowmap g' B)), (detF_ext n A (rowmap g' mI)).
    + apply (detF_rowmap n B n g'); [lia| |].
      * intros i Hi. unfold g'. destruct (Nat.ltb_spec i n); [apply Hb; lia|lia].
      * intros i Hi Hin. lia.
    + intros i j Hi Hj. unfold rowmap, g', mI. destruct (Nat.ltb_spec i n); [|lia].
      apply Hunit; assumption.
    + intros i j Hi Hj. unfold rowmap, g', mmul. destruct (Nat.ltb_spec i n); [|lia].
      rewrite (sum_single n (g i)); [|apply Hb; lia|].
      * rewrite Hunit by (try assumption; apply Hb; lia). rewrite Nat.eqb_refl. ring.
      * intros l Hl Hne. rewrite Hunit by assumption.
        destruct (Nat.eqb_spec (g i) l); [congruence|ring].
  - assert (Hk : (k < n)%nat) by lia.
    pose (Ac := fun c => setrow k (fun j => if Nat.eqb c j then 1 else 0) A).
    assert (E1 : detF n A = sum n (fun c => A k c * detF n (Ac c))).
    { apply (detF_row_sum n k A n (fun c => A k c) Ac Hk).
      - intros l i j Hl Hi Hj Hik. unfold Ac, setrow. eqb_tac. reflexivity.
      - intros j Hj. rewrite (sum_single n j); [|exact Hj|].
        + unfold Ac, setrow. rewrite !Nat.eqb_refl. ring.
        + intros l Hl Hne. unfold Ac, setrow. rewrite Nat.eqb_refl.
          destruct (Nat.eqb_spec l j); [contradiction|ring]. }
    assert (E2 : detF n (mmul n A B) = sum n (fun c => A k c * detF n (mmul n (Ac c) B))).
    { apply (detF_row_sum n k (mmul n A B) n (fun c => A k c) (fun c => mmul n (Ac c) B) Hk).
      - intros l i j Hl Hi Hj Hik. unfold mmul, Ac, setrow. eqb_tac. reflexivity.
      - intros j Hj. unfold mmul at 1. apply sum_ext. intros l Hl. f_equal.
        unfold mmul. rewrite (sum_single n l); [|exact Hl|].
        + unfold Ac, setrow. rewrite !Nat.eqb_refl. ring.
        + intros l' Hl' Hne. unfold Ac, setrow. rewrite Nat.eqb_refl.
          destruct (Nat.eqb_spec l l'); [congruence|ring]. }
    rewrite E1, E2. rewrite <- sum_scale_r. apply sum_ext. intros c Hc.
    rewrite (IH (S k) (fun i => if Nat.eqb i k then c else g i) (Ac c)); [ring|lia| |].
    + intros i Hi. eqb_tac. apply Hb; lia.
    + intros i j Hi Hj. unfold Ac, setrow. destruct (Nat.eqb_spec i k); [reflexivity|].
      apply Hunit; [lia|exact Hj].
Qed.

Theorem detF_mmul n A B : detF n (mmul n A B) = detF n A * detF n B.
Proof.
  apply (detF_mmul_aux n B n O (fun i => i) A); [lia| |]; intros; lia.
Qed.

(* ------------------------------------------------------------------ cofactors *)

Lemma detF_S m A : detF (S m) A = sum (S m) (fun k => sgn k * A k O * detF m (minor k A)).
Proof. reflexivity. Qed.

Lemma sum_skip_at k : forall i f, (i <= k)%nat ->
  sum (S k) f = f i + sum k (fun a => f (skip i a)).
Proof.
  induction k as [|k IH]; intros i f Hi.
  - assert (i = O) by lia. subst i. cbn [sum]. ring.
  - change (sum (S (S k)) f) with (sum (S k) f + f (S k)).
    destruct (Nat.eq_dec i (S k)) as [->|Hne].
    + rewrite (sum_ext (S k) (fun a => f (skip (S k) a)) f).
      * ring.
      * intros a Ha. unfold skip. destruct (Nat.ltb_spec a (S k)); [reflexivity|lia].
    + rewrite (IH i f) by lia. cbn [sum].
      assert (E : skip i k = S k) by (unfold skip; destruct (Nat.ltb_spec k i); lia).
      rewrite E. ring.
Qed.

(* delete row r and column c *)
Definition minor2 (r c : nat) (A : M) : M := fun i j => A (skip r i) (skip c j).

(* a row that is a unit vector: the determinant is the signed complementary minor *)
Lemma detF_unit_row n : forall r c A, (r < S n)%nat -> (c < S n)%nat ->
  (forall j, (j < S n)%nat -> A r j = if Nat.eqb j c then 1 else 0) ->
  detF (S n) A = sgn (r + c) * detF n (minor2 r c A).
Proof.
  induction n as [|n IH]; intros r c A Hr Hc Hrow.
  - assert (r = O) by lia. assert (c = O) by lia. subst r c.
    cbn [detF sum]. rewrite (Hrow O) by lia. cbn [Nat.eqb Nat.add]. change (sgn 0) with f1. ring.
  - destruct c as [|c].
    + rewrite detF_S. rewrite (sum_single (S (S n)) r); [|exact Hr|].
      * rewrite (Hrow O) by lia. cbn [Nat.eqb]. rewrite Nat.add_0_r.
        rewrite (detF_ext (S n) (minor r A) (minor2 r 0 A)); [ring|].
        intros i j _ _. reflexivity.
      * intros k Hk Hkr.
        rewrite (detF_zero_row (S n) (minor k A) (if Nat.ltb r k then r else (r - 1)%nat)); [ring| |].
        -- destruct (Nat.ltb_spec r k); lia.
        -- intros j Hj. unfold minor.
           replace (skip k (if Nat.ltb r k then r else (r - 1)%nat)) with r by skip_tac.
           rewrite Hrow by lia. reflexivity.
    + rewrite (detF_S (S n) A). rewrite (sum_skip_at (S n) r) by lia.
      rewrite (Hrow O) by lia. cbn [Nat.eqb].
      rewrite (detF_S n (minor2 r (S c) A)). rewrite <- sum_scale_l.
      transitivity (sum (S n) (fun a => sgn (skip r a) * A (skip r a) O * detF (S n) (minor (skip r a) A))); [ring|].
      apply sum_ext. intros k' Hk'.
      set (k := skip r k').
      set (r' := if Nat.ltb r k then r else (r - 1)%nat).
      assert (Hk : (k < S (S n))%nat /\ k <> r) by (unfold k; skip_tac).
      assert (Hr' : (r' < S n)%nat) by (unfold r'; destruct (Nat.ltb_spec r k); lia).
      assert (Er' : skip k r' = r) by (unfold r'; skip_tac).
      rewrite (IH r' c (minor k A)); [|exact Hr'|lia|].
      * assert (Esgn : sgn k * sgn (r' + c) = sgn (r + S c) * sgn k').
        { unfold r', k. unfold skip. destruct (Nat.ltb_spec k' r) as [Hlt|Hge].
          - destruct (Nat.ltb_spec r k'); [lia|].
            destruct r as [|r0]; [lia|].
            replace (S r0 - 1 + c)%nat with (r0 + c)%nat by lia.
            replace (S r0 + S c)%nat with (S (S (r0 + c))) by lia. rewrite !sgn_S. ring.
          - destruct (Nat.ltb_spec r (S k')); [|lia].
            replace (r + S c)%nat with (S (r + c)) by lia. rewrite !sgn_S. ring. }
        rewrite (detF_ext n (minor2 r' c (minor k A)) (minor k' (minor2 r (S c) A))).
        -- change (minor2 r (S c) A k' O) with (A k O).
           transitivity (sgn k * sgn (r' + c) * (A k O * detF n (minor k' (minor2 r (S c) A)))); [ring|].
           rewrite Esgn. ring.
        -- intros i j Hi Hj. unfold minor2, minor.
           assert (E1 : skip k (skip r' i) = skip r (skip k' i)) by (unfold r', k; skip_tac).
           assert (E2 : S (skip c j) = skip (S c) (S j)).
           { unfold skip. change (S j <? S c)%nat with (j <? c)%nat. destruct (j <? c)%nat; reflexivity. }
           rewrite E1, E2. reflexivity.
      * intros j Hj. unfold minor. rewrite Er'. rewrite Hrow by lia. reflexivity.
Qed.

(* Laplace expansion along ANY row *)
Lemma detF_laplace_row n r A : (r < S n)%nat ->
  detF (S n) A = sum (S n) (fun c => A r c * (sgn (r + c) * detF n (minor2 r c A))).
Proof.
  intros Hr.
  pose (F := fun c => setrow r (fun j => if Nat.eqb j c then 1 else 0) A).
  rewrite (detF_row_sum (S n) r A (S n) (fun c => A r c) F Hr).
  - apply sum_ext. intros c Hc. f_equal.
    rewrite (detF_unit_row n r c (F c) Hr Hc).
    + f_equal. apply detF_ext. intros i j Hi Hj. unfold minor2, F, setrow.
      destruct (Nat.eqb_spec (skip r i) r) as [E|E]; [|reflexivity]. revert E. skip_tac.
    + intros j Hj. unfold F, setrow. rewrite Nat.eqb_refl. reflexivity.
  - intros l i j Hl Hi Hj Hir. unfold F, setrow. eqb_tac. reflexivity.
  - intros j Hj. rewrite (sum_single (S n) j); [|exact Hj|].
    + unfold F, setrow. rewrite !Nat.eqb_refl. ring.
    + intros l Hl Hne. unfold F, setrow. rewrite Nat.eqb_refl.
      destruct (Nat.eqb_spec j l); [congruence|ring].
Qed.

Lemma sgn_sq k : sgn k * sgn k = 1.
Proof. unfold sgn. destruct (Nat.odd k); ring. Qed.
Lemma sgn_add a b : sgn (a + b) = sgn a * sgn b.
Proof.
  induction a as [|a IH]; [cbn [Nat.add]; change (sgn 0) with f1; ring|].
  cbn [Nat.add]. rewrite !sgn_S, IH. ring.
Qed.

(* ------------------------------------------------------------------ statements about [det] *)

Theorem det_lower_tri n A : tri_lower n A -> det n A = dprod n (fun i => A i i).
Proof. rewrite det_detF. apply detF_lower. Qed.

Theorem det_upper_tri n A : tri_upper n A -> det n A = dprod n (fun i => A i i).
Proof. rewrite det_detF. apply detF_upper. Qed.

Theorem det_mI n : det n mI = 1.
Proof. rewrite det_detF. apply detF_mI. Qed.

Theorem det_mmul n A B : det n (mmul n A B) = det n A * det n B.
Proof. rewrite !det_detF. apply detF_mmul. Qed.

Lemma tri_lower_mT n A : tri_lower n A -> tri_upper n (mT A).
Proof. intros H i j Hi Hj Hij. unfold mT. apply H; assumption. Qed.
Lemma tri_upper_mT n A : tri_upper n A -> tri_lower n (mT A).
Proof. intros H i j Hi Hj Hij. unfold mT. apply H; assumption. Qed.

(* det (T T^T) = (prod diag T)^2 for triangular T *)
Theorem det_tri_gram_lower n T : tri_lower n T ->
  det n (mmul n T (mT T)) = dprod n (fun i => T i i) * dprod n (fun i => T i i).
Proof.
  intros H. rewrite det_mmul, (det_lower_tri n T H), (det_upper_tri n (mT T) (tri_lower_mT n T H)).
  reflexivity.
Qed.
Theorem det_tri_gram_upper n T : tri_upper n T ->
  det n (mmul n T (mT T)) = dprod n (fun i => T i i) * dprod n (fun i => T i i).
Proof.
  intros H. rewrite det_mmul, (det_upper_tri n T H), (det_lower_tri n (mT T) (tri_upper_mT n T H)).
  reflexivity.
Qed.

Theorem det_inverse n A Ai : is_inverse n A Ai -> det n A * det n Ai = 1.
Proof.
  intros [H _]. rewrite <- det_mmul. rewrite (det_ext n _ mI H). apply det_mI.
Qed.

Lemma det_inverse_neq0 n A Ai : is_inverse n A Ai -> det n A <> 0.
Proof.
  intros H E. pose proof (det_inverse n A Ai H) as H1. rewrite E in H1.
  apply (F_1_neq_0 (@FT K)). rewrite <- H1. ring.
Qed.

(* conjugation by an invertible matrix and its transpose-like partner:
   det (X S Y) = det (X Y) * det S *)
Theorem det_sandwich n X S Y :
  det n (mmul n X (mmul n S Y)) = det n (mmul n X Y) * det n S.
Proof. rewrite !det_mmul. ring. Qed.

(* Laplace expansion along any row, cofactor of a unit row *)
Theorem det_laplace_row n r A : (r < S n)%nat ->
  det (S n) A = sum (S n) (fun c => A r c * (sgn (r + c) * det n (minor2 r c A))).
Proof.
  intros Hr. rewrite det_detF, (detF_laplace_row n r A Hr). apply sum_ext. intros c _.
  rewrite det_detF. reflexivity.
Qed.

(* the inverse of a lower-triangular matrix with non-zero diagonal is lower triangular *)
Lemma tri_lower_inverse n L Li : tri_lower n L -> (forall i, (i < n)%nat -> L i i <> 0) ->
  meq n n (mmul n Li L) mI -> tri_lower n Li.
Proof.
  intros HL Hd HI.
  assert (H : forall m i j, (i < j)%nat -> (j < n)%nat -> (n - m <= j)%nat -> Li i j = 0).
  { induction m as [|m IH]; intros i j Hij Hj Hm; [lia|].
    destruct (Nat.le_gt_cases (n - m) j) as [Hge|Hlt]; [apply (IH i j); assumption|].
    pose proof (HI i j ltac:(lia) Hj) as E. unfold mmul, mI in E.
    destruct (Nat.eqb_spec i j); [lia|].
    rewrite (sum_single n j) in E; [|exact Hj|].
    - transitivity (Li i j * L j j / L j j); [field; apply Hd; exact Hj|]. rewrite E. field. apply Hd; exact Hj.
    - intros l Hl Hne. destruct (Nat.lt_ge_cases l j) as [Hlj|Hjl].
      + rewrite (HL l j) by assumption. ring.
      + rewrite (IH i l) by lia. ring. }
  intros i j Hi Hj Hij. apply (H n i j); lia.
Qed.

Lemma tri_lower_mmul n L C : tri_lower n L -> tri_lower n C -> tri_lower n (mmul n L C).
Proof.
  intros HL HC i j Hi Hj Hij. unfold mmul. apply sum_zero. intros k Hk.
  destruct (Nat.lt_ge_cases i k) as [Hik|Hki].
  - rewrite (HL i k) by assumption. ring.
  - rewrite (HC k j) by (try assumption; lia). ring.
Qed.

Lemma tri_lower_mmul_diag n L C i : tri_lower n L -> tri_lower n C -> (i < n)%nat ->
  mmul n L C i i = L i i * C i i.
Proof.
  intros HL HC Hi. unfold mmul. rewrite (sum_single n i); [reflexivity|exact Hi|].
  intros k Hk Hne.
  destruct (Nat.lt_ge_cases i k) as [Hik|Hki].
  - rewrite (HL i k) by assumption. ring.
  - rewrite (HC k i) by (try assumption; lia). ring.
Qed.

(* Schur complement / bordered determinant, inverse form: the complementary minor of the
   (i,i) entry is [A^-1]_ii * det A   (every n, every i) *)
Theorem det_minor_inverse k i A Ainv : (i <= k)%nat -> is_inverse (S k) A Ainv ->
  det k (minor2 i i A) = Ainv i i * det (S k) A.
Proof.
  intros Hi [_ HA]. rewrite !det_detF.
  pose (ei := fun j => if Nat.eqb j i then (1 : car) else 0).
  pose (E := setrow i (Ainv i) mI).
  assert (EA : meq (S k) (S k) (mmul (S k) E A) (setrow i ei A)).
  { intros a j Ha Hj. unfold E, setrow, mmul. destruct (Nat.eqb_spec a i) as [->|Hne].
    - pose proof (HA i j Ha Hj) as H. unfold mmul in H. rewrite H. unfold mI, ei.
      rewrite Nat.eqb_sym. reflexivity.
    - exact (mmul_I_l (S k) (S k) A a j Ha Hj). }
  assert (DE : detF (S k) E = Ainv i i).
  { pose (F := fun c => setrow i (fun j => if Nat.eqb j c then 1 else 0) mI).
    rewrite (detF_row_sum (S k) i E (S k) (fun c => Ainv i c) F); [|lia| |].
    - rewrite (sum_single (S k) i); [|lia|].
      + rewrite (detF_ext (S k) (F i) mI); [rewrite detF_mI; ring|].
        intros a j Ha Hj. unfold F, setrow, mI. destruct (Nat.eqb_spec a i) as [->|Hne]; [|reflexivity].
        apply f_equal with (f := fun b : bool => if b then 1 else 0). apply Nat.eqb_sym.
      + intros c Hc Hne.
        assert (Z : detF (S k) (F c) = 0).
        { destruct (Nat.lt_ge_cases c i) as [Hlt|Hge].
          - apply (detF_eq_rows (S k) (F c) c i); [exact Hlt|lia|].
            intros j Hj. unfold F, setrow, mI. eqb_tac; reflexivity.
          - apply (detF_eq_rows (S k) (F c) i c); [lia|exact Hc|].
            intros j Hj. unfold F, setrow, mI. eqb_tac; reflexivity. }
        rewrite Z. ring.
    - intros l a j Hl Ha Hj Hai. unfold F, E, setrow. eqb_tac. reflexivity.
    - intros j Hj. unfold E, setrow. rewrite Nat.eqb_refl.
      rewrite (sum_single (S k) j); [|exact Hj|].
      + unfold F, setrow. rewrite !Nat.eqb_refl. ring.
      + intros l Hl Hne. unfold F, setrow. rewrite Nat.eqb_refl.
        destruct (Nat.eqb_spec j l); [congruence|ring]. }
  rewrite <- DE, <- detF_mmul. rewrite (detF_ext (S k) _ _ EA).
  rewrite (detF_unit_row k i i (setrow i ei A)); [|lia|lia|].
  - rewrite sgn_add, sgn_sq.
    rewrite (detF_ext k (minor2 i i (setrow i ei A)) (minor2 i i A)); [ring|].
    intros a j Ha Hj. unfold minor2, setrow.
    destruct (Nat.eqb_spec (skip i a) i) as [Eq|_]; [|reflexivity]. revert Eq. skip_tac.
  - intros j Hj. unfold setrow, ei. rewrite Nat.eqb_refl. reflexivity.
Qed.

(* a root L of A with inverse Li gives the inverse Li^T Li of A *)
Lemma gram_inverse n L Li A :
  meq n n (mmul n L (mT L)) A -> is_inverse n L Li -> is_inverse n A (mmul n (mT Li) Li).
Proof.
  intros HL [H1 H2]. split.
  - rewrite <- HL.
    rewrite (mmul_assoc n n n n L (mT L)).
    rewrite <- (mmul_assoc n n n n (mT L) (mT Li) Li).
    rewrite <- (mT_mmul n n n Li L).
    rewrite H2. rewrite (mT_mI n n). rewrite (mmul_I_l n n Li). exact H1.
  - rewrite <- HL.
    rewrite (mmul_assoc n n n n (mT Li) Li).
    rewrite <- (mmul_assoc n n n n Li L (mT L)).
    rewrite H2. rewrite (mmul_I_l n n). rewrite <- (mT_mmul n n n L Li). rewrite H1.
    apply mT_mI.
Qed.

(* transpose: det A^T = det A (first-column expansion of A^T = first-row expansion of A) *)
Lemma detF_mT n : forall A, detF n (mT A) = detF n A.
Proof.
  induction n as [|n IH]; intros A; [reflexivity|].
  rewrite (detF_laplace_row n O A) by lia. rewrite detF_S. apply sum_ext. intros k Hk.
  cbn [Nat.add]. unfold mT at 1.
  rewrite (detF_ext n (minor k (mT A)) (mT (minor2 O k A))) by (intros i j _ _; reflexivity).
  rewrite IH. ring.
Qed.

Theorem det_mT n A : det n (mT A) = det n A.
Proof. rewrite !det_detF. apply detF_mT. Qed.

End Det.

(* non-vacuity / sanity: the theorems agree with direct evaluation on a 3x3 instance over Qc *)
Definition ex_det_T : @M QcF := @of_list QcF [[qc 2 1; 0%Qc; 0%Qc]; [qc 1 1; qc 3 1; 0%Qc]; [qc (-1) 2; qc 5 1; qc 1 4]].
Example ex_det_T_lower : @tri_lower QcF 3 ex_det_T.
Proof.
  intros i j Hi Hj Hij.
  destruct i as [|[|[|i]]]; destruct j as [|[|[|j]]]; try lia; vm_compute; reflexivity.
Qed.
Example ex_det_T_gram : @det QcF 3 (mmul 3 ex_det_T (mT ex_det_T)) = qc 9 4.
Proof. vm_compute. reflexivity. Qed.
Example ex_det_T_diag : (@dprod QcF 3 (fun i => ex_det_T i i) * @dprod QcF 3 (fun i => ex_det_T i i))%Qc = qc 9 4.
Proof. vm_compute. reflexivity. Qed.
