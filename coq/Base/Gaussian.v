(* Base/Gaussian.v -- the standard normal cdf of Base.Expr lies strictly in (0,1).

   Main results:
     std_normal_cdf_pos        : forall z, 0 < std_normal_cdf z
     std_normal_cdf_lt_1       : forall z, std_normal_cdf z < 1
     ln_std_normal_cdf_derive  : forall z, is_derive (fun x => ln (std_normal_cdf x)) z
                                              (std_normal_pdf z / std_normal_cdf z)

   Proof of the sharp bound (RInt exp(-t^2/2) 0 x)^2 < PI/2 by differentiation under
   the integral sign:  H x := (I x)^2 + RInt (fun t => 2 exp(-x^2 (1+t^2)/2)/(1+t^2)) 0 1
   has derivative 0, H 0 = 2 atan 1 = PI/2, and the second summand is > 0. *)
From Coq Require Import Reals Lra Lia.
From Coquelicot Require Import Coquelicot.
From GPV Require Import Base.Expr.
Local Open Scope R_scope.

Definition gs_e (t : R) : R := exp (- (t * t) / 2).
Definition gs_I (x : R) : R := RInt gs_e 0 x.
Definition gs_g (x t : R) : R := 2 * exp (- (x * x) * (1 + t * t) / 2) / (1 + t * t).
Definition gs_dg (x t : R) : R := - 2 * x * exp (- (x * x) * (1 + t * t) / 2).
Definition gs_G (x : R) : R := RInt (gs_g x) 0 1.

Lemma gs_e_continuous z : continuous gs_e z.
Proof.
  apply (ex_derive_continuous (V := R_NormedModule)).
  unfold gs_e. auto_derive. exact I.
Qed.

Lemma gs_e_ex_RInt a b : ex_RInt gs_e a b.
Proof. apply (ex_RInt_continuous (V := R_CompleteNormedModule)). intros z _. apply gs_e_continuous. Qed.

Lemma gs_I_derive x : is_derive gs_I x (gs_e x).
Proof.
  apply (is_derive_RInt (V := R_CompleteNormedModule) gs_e gs_I 0 x).
  - apply filter_forall. intros y. apply RInt_correct. apply gs_e_ex_RInt.
  - apply gs_e_continuous.
Qed.

Lemma gs_F_derive x : is_derive (fun x => gs_I x * gs_I x) x (2 * gs_I x * gs_e x).
Proof.
  evar_last.
  apply (is_derive_mult (K := R_AbsRing) gs_I gs_I x (gs_e x) (gs_e x)).
  - apply gs_I_derive.
  - apply gs_I_derive.
  - intros; apply Rmult_comm.
  - unfold plus, mult; cbn. ring.
Qed.

Lemma gs_1t2_pos t : 0 < 1 + t * t.
Proof. nra. Qed.

Lemma gs_g_derive (x t : R) : is_derive (fun u => gs_g u t) x (gs_dg x t).
Proof.
  unfold gs_g, gs_dg. pose proof (gs_1t2_pos t).
  auto_derive.
  - lra.
  - unfold Rdiv. set (E := exp _). field. lra.
Qed.

Lemma gs_dg_cont2 x t : continuity_2d_pt gs_dg x t.
Proof.
  unfold gs_dg.
  apply continuity_2d_pt_mult.
  - apply continuity_2d_pt_mult.
    + apply continuity_2d_pt_const.
    + apply continuity_2d_pt_id1.
  - apply (continuity_1d_2d_pt_comp exp (fun u v => - (u * u) * (1 + v * v) / 2)).
    + apply derivable_continuous_pt. apply derivable_pt_exp.
    + unfold Rdiv. apply continuity_2d_pt_mult; [|apply continuity_2d_pt_const].
      apply continuity_2d_pt_mult.
      * apply continuity_2d_pt_opp. apply continuity_2d_pt_mult; apply continuity_2d_pt_id1.
      * apply continuity_2d_pt_plus; [apply continuity_2d_pt_const|].
        apply continuity_2d_pt_mult; apply continuity_2d_pt_id2.
Qed.

Lemma gs_g_continuous x t : continuous (gs_g x) t.
Proof.
  apply (ex_derive_continuous (V := R_NormedModule)).
  unfold gs_g. pose proof (gs_1t2_pos t). auto_derive. lra.
Qed.

Lemma gs_g_ex_RInt x a b : ex_RInt (gs_g x) a b.
Proof. apply (ex_RInt_continuous (V := R_CompleteNormedModule)). intros z _. apply gs_g_continuous. Qed.

Lemma gs_G_derive0 x : is_derive gs_G x (RInt (gs_dg x) 0 1).
Proof.
  unfold gs_G.
  evar_last.
  apply (is_derive_RInt_param gs_g 0 1 x).
  - apply filter_forall. intros y t _. eexists. apply gs_g_derive.
  - intros t _.
    apply (continuity_2d_pt_ext gs_dg).
    + intros u v. symmetry. apply is_derive_unique. apply gs_g_derive.
    + apply gs_dg_cont2.
  - apply filter_forall. intros y. apply gs_g_ex_RInt.
  - apply RInt_ext. intros t _. apply is_derive_unique. apply gs_g_derive.
Qed.

Lemma gs_I_subst x : RInt (fun t => x * gs_e (x * t)) 0 1 = gs_I x.
Proof.
  unfold gs_I.
  pose proof (RInt_comp_lin (V := R_CompleteNormedModule) gs_e x 0 0 1) as E.
  replace (x * 0 + 0) with 0 in E by ring.
  replace (x * 1 + 0) with x in E by ring.
  rewrite <- E; [|apply gs_e_ex_RInt].
  apply RInt_ext. intros t _. unfold scal; cbn. unfold mult; cbn.
  replace (x * t + 0) with (x * t) by ring. reflexivity.
Qed.

Lemma gs_xe_ex_RInt x a b : ex_RInt (fun t => x * gs_e (x * t)) a b.
Proof.
  apply (ex_RInt_continuous (V := R_CompleteNormedModule)). intros z _.
  apply (ex_derive_continuous (V := R_NormedModule)).
  unfold gs_e. auto_derive. exact I.
Qed.

Lemma gs_dg_RInt x : RInt (gs_dg x) 0 1 = - 2 * gs_e x * gs_I x.
Proof.
  rewrite <- gs_I_subst.
  transitivity (RInt (fun t => scal (- 2 * gs_e x) (x * gs_e (x * t))) 0 1).
  - apply RInt_ext. intros t _. unfold scal; cbn. unfold mult; cbn.
    unfold gs_dg, gs_e.
    replace (- (x * x) * (1 + t * t) / 2) with (- (x * x) / 2 + - (x * t * (x * t)) / 2) by field.
    rewrite exp_plus. ring.
  - rewrite (RInt_scal (V := R_CompleteNormedModule)); [|apply gs_xe_ex_RInt].
    reflexivity.
Qed.

Definition gs_H (x : R) : R := gs_I x * gs_I x + gs_G x.

Lemma gs_H_derive x : is_derive gs_H x 0.
Proof.
  unfold gs_H. evar_last.
  apply (is_derive_plus (V := R_NormedModule) (fun x => gs_I x * gs_I x) gs_G x).
  - apply gs_F_derive.
  - apply gs_G_derive0.
  - rewrite gs_dg_RInt. unfold plus; cbn. ring.
Qed.

Lemma gs_H_const x : gs_H x = gs_H 0.
Proof.
  destruct (MVT_gen gs_H 0 x (fun _ => 0)) as [c [_ Hc]].
  - intros y _. apply gs_H_derive.
  - intros y _. apply continuity_pt_filterlim.
    apply (ex_derive_continuous (V := R_NormedModule)). eexists. apply gs_H_derive.
  - lra.
Qed.

Lemma gs_I_0 : gs_I 0 = 0.
Proof. unfold gs_I. apply (RInt_point (V := R_CompleteNormedModule)). Qed.

Lemma gs_G_0 : gs_G 0 = PI / 2.
Proof.
  unfold gs_G.
  assert (H : is_RInt (gs_g 0) 0 1 (minus (2 * atan 1) (2 * atan 0))).
  { apply (is_RInt_derive (V := R_CompleteNormedModule) (fun t => 2 * atan t) (gs_g 0)).
    - intros t _. unfold gs_g. pose proof (gs_1t2_pos t). auto_derive.
      + exact I.
      + replace (- (0 * 0) * (1 + t * t) / 2) with 0 by field. rewrite exp_0.
        replace (t ^ 2) with (t * t) by ring. field. lra.
    - intros t _. apply gs_g_continuous. }
  rewrite (is_RInt_unique _ _ _ _ H).
  rewrite atan_1, atan_0. unfold minus, plus, opp; cbn. field.
Qed.

Lemma gs_H_val x : gs_I x * gs_I x + gs_G x = PI / 2.
Proof.
  change (gs_H x = PI / 2). rewrite gs_H_const. unfold gs_H.
  rewrite gs_I_0, gs_G_0. ring.
Qed.

Lemma gs_G_pos x : 0 < gs_G x.
Proof.
  unfold gs_G. apply RInt_gt_0.
  - lra.
  - intros t _. unfold gs_g. pose proof (gs_1t2_pos t).
    apply Rdiv_lt_0_compat; [|lra].
    apply Rmult_lt_0_compat; [lra|apply exp_pos].
  - intros t _. apply gs_g_continuous.
Qed.

Lemma gs_I_sqr_lt x : gs_I x * gs_I x < PI / 2.
Proof. pose proof (gs_H_val x). pose proof (gs_G_pos x). lra. Qed.

Lemma gs_sqrt_2PI_pos : 0 < sqrt (2 * PI).
Proof. apply sqrt_lt_R0. pose proof PI_RGT_0. lra. Qed.

Lemma gs_pdf_RInt x : RInt std_normal_pdf 0 x = gs_I x / sqrt (2 * PI).
Proof.
  unfold gs_I.
  transitivity (RInt (fun t => scal (/ sqrt (2 * PI)) (gs_e t)) 0 x).
  - apply RInt_ext. intros t _. unfold std_normal_pdf, gs_e, scal; cbn. unfold mult; cbn.
    unfold Rdiv. ring.
  - rewrite (RInt_scal (V := R_CompleteNormedModule)); [|apply gs_e_ex_RInt].
    unfold scal; cbn. unfold mult; cbn. unfold Rdiv. ring.
Qed.

Lemma gs_pdf_RInt_bounds x : - (1 / 2) < RInt std_normal_pdf 0 x < 1 / 2.
Proof.
  rewrite gs_pdf_RInt.
  pose proof gs_sqrt_2PI_pos as Hs.
  pose proof (gs_I_sqr_lt x) as HI.
  assert (Hss : sqrt (2 * PI) * sqrt (2 * PI) = 2 * PI).
  { apply sqrt_sqrt. pose proof PI_RGT_0. lra. }
  set (s := sqrt (2 * PI)) in *. set (i := gs_I x) in *.
  assert (Hb : - (s / 2) < i < s / 2) by (split; nra).
  split.
  - apply Rmult_lt_reg_r with s; [exact Hs|]. unfold Rdiv. rewrite Rmult_assoc, Rinv_l; lra.
  - apply Rmult_lt_reg_r with s; [exact Hs|]. unfold Rdiv. rewrite Rmult_assoc, Rinv_l; lra.
Qed.

Lemma std_normal_cdf_pos : forall z : R, 0 < std_normal_cdf z.
Proof. intros z. unfold std_normal_cdf. pose proof (gs_pdf_RInt_bounds z). lra. Qed.

Lemma std_normal_cdf_lt_1 : forall z : R, std_normal_cdf z < 1.
Proof. intros z. unfold std_normal_cdf. pose proof (gs_pdf_RInt_bounds z). lra. Qed.

Lemma gs_pdf_continuous z : continuous std_normal_pdf z.
Proof.
  apply (ex_derive_continuous (V := R_NormedModule)).
  unfold std_normal_pdf. auto_derive. exact I.
Qed.

Lemma gs_pdf_ex_RInt a b : ex_RInt std_normal_pdf a b.
Proof. apply (ex_RInt_continuous (V := R_CompleteNormedModule)). intros z _. apply gs_pdf_continuous. Qed.

Lemma gs_std_normal_cdf_derive z : is_derive std_normal_cdf z (std_normal_pdf z).
Proof.
  unfold std_normal_cdf.
  evar_last.
  apply (is_derive_plus (V := R_NormedModule) (fun _ => 1 / 2) (fun x => RInt std_normal_pdf 0 x) z (@zero R_NormedModule) (std_normal_pdf z)).
  - apply (is_derive_const (V := R_NormedModule)).
  - apply (is_derive_RInt (V := R_CompleteNormedModule) std_normal_pdf (fun x => RInt std_normal_pdf 0 x) 0 z).
    + apply filter_forall. intros y. apply RInt_correct. apply gs_pdf_ex_RInt.
    + apply gs_pdf_continuous.
  - cbn. unfold plus, zero; cbn. ring.
Qed.

Lemma ln_std_normal_cdf_derive : forall z : R,
  is_derive (fun x => ln (std_normal_cdf x)) z (std_normal_pdf z / std_normal_cdf z).
Proof.
  intros z. pose proof (std_normal_cdf_pos z) as Hpos.
  evar_last.
  apply (is_derive_comp (V := R_NormedModule) ln std_normal_cdf z (/ std_normal_cdf z) (std_normal_pdf z)).
  - apply is_derive_Reals. apply derivable_pt_lim_ln. exact Hpos.
  - apply gs_std_normal_cdf_derive.
  - cbn. unfold scal; cbn. unfold mult; cbn. field. lra.
Qed.

Lemma gs_pdf_even t : std_normal_pdf (- t) = std_normal_pdf t.
Proof. unfold std_normal_pdf. replace (- t * - t) with (t * t) by ring. reflexivity. Qed.

Lemma gs_std_normal_cdf_opp x : std_normal_cdf (- x) = 1 - std_normal_cdf x.
Proof.
  unfold std_normal_cdf.
  assert (E : RInt std_normal_pdf (- 0) (- x) = - RInt std_normal_pdf 0 x).
  { pose proof (RInt_correct (V := R_CompleteNormedModule) std_normal_pdf (- 0) (- x) (gs_pdf_ex_RInt _ _)) as HJ.
    apply (is_RInt_comp_opp std_normal_pdf 0 x) in HJ.
    pose proof (is_RInt_opp _ _ _ _ (RInt_correct (V := R_CompleteNormedModule) std_normal_pdf 0 x (gs_pdf_ex_RInt _ _))) as HI.
    assert (HJ' : is_RInt (fun y => opp (std_normal_pdf y)) 0 x (RInt std_normal_pdf (- 0) (- x))).
    { eapply is_RInt_ext; [|exact HJ]. intros t _. cbn. rewrite gs_pdf_even. reflexivity. }
    transitivity (RInt (fun y => opp (std_normal_pdf y)) 0 x).
    - symmetry. exact (is_RInt_unique _ _ _ _ HJ').
    - exact (is_RInt_unique _ _ _ _ HI). }
  rewrite Ropp_0 in E. rewrite E. lra.
Qed.
