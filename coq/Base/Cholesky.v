(* Cholesky factorisation of symmetric POSITIVE DEFINITE real matrices, with inverses.
   1. (any field) a lower-triangular matrix with non-zero diagonal has a two-sided inverse, which is
      lower triangular ([tri_lower_has_inverse]; forward substitution, by recursion on the size);
   2. (R) every symmetric PD matrix A is L L^T with L lower triangular and STRICTLY POSITIVE diagonal
      ([pd_has_cholesky]; Schur complement of the leading entry, [schur_pd] of Base/Psd.v), L has a
      lower-triangular two-sided inverse ([pd_cholesky_inverse]), hence A is invertible
      ([pd_has_inverse]), its Laplace determinant is positive ([pd_det_pos]), every inverse of A is
      again symmetric PD ([pd_inverse_pd]).
   Only the standard-library axioms of the reals in part 2; part 1 is axiom-free. *)
From Coq Require Import Arith Lia Ring Field Setoid Morphisms List Bool Reals Lra Psatz.
From GPV Require Import Base.LinAlg Base.Exec Base.Expr Base.Det Base.Psd.

(* ------------------------------------------------------------------ triangular inverses *)
Section TriInv.
Context {K : Fld}.
Add Field Ff_cholesky : (@FT K).
Local Open Scope fld_scope.

(* product of two matrices of the shape [[s, 0],[c, F]] *)
Lemma mmul_consF n s c F s' c' F' i j :
  mmul (Datatypes.S n) (consF s c F) (consF s' c' F') i j =
  consF (s * s') (fun a => c a * s' + sum n (fun l => F a l * c' l)) (mmul n F F') i j.
Proof.
  unfold mmul. rewrite sum_S_first.
  destruct i as [|i'], j as [|j']; cbn [consF].
  - rewrite sum_zero; [ring|]. intros; ring.
  - rewrite sum_zero; [ring|]. intros; ring.
  - reflexivity.
  - ring.
Qed.

Lemma tri_lower_is_consF n (L : M) : tri_lower (Datatypes.S n) L ->
  meq (Datatypes.S n) (Datatypes.S n) L (consF (L O O) (fun i => L (Datatypes.S i) O) (tailM L)).
Proof.
  intros HL i j Hi Hj. destruct i as [|i'], j as [|j']; cbn [consF]; try reflexivity.
  apply HL; lia.
Qed.

Lemma mI_consF i j : @mI K i j = consF 1 (fun _ => 0) mI i j.
Proof. destruct i as [|i'], j as [|j']; reflexivity. Qed.

Theorem tri_lower_has_inverse n : forall L : M,
  tri_lower n L -> (forall i, (i < n)%nat -> L i i <> 0) ->
  exists Li : M, is_inverse n L Li /\ tri_lower n Li.
Proof.
  induction n as [|n IH]; intros L HL Hd.
  - exists mI. split; [split; intros i j Hi; lia|intros i j Hi; lia].
  - destruct (IH (tailM L)) as (Fi & [HF1 HF2] & HFt).
    + intros i j Hi Hj Hij. unfold tailM. apply HL; lia.
    + intros i Hi. unfold tailM. apply Hd. lia.
    + set (s := L O O). set (c := fun i => L (Datatypes.S i) O). set (F := tailM L).
      assert (Hs : s <> 0) by (apply Hd; lia).
      pose (v := fun a => sum n (fun l => Fi a l * c l)).
      pose (Li := consF (1 / s) (fun a => - v a / s) Fi).
      assert (HLc : meq (Datatypes.S n) (Datatypes.S n) L (consF s c F)) by (apply tri_lower_is_consF; exact HL).
      (* F (Fi c) = c *)
      assert (HFv : forall a, (a < n)%nat -> sum n (fun l => F a l * v l) = c a).
      { intros a Ha.
        pose (cv := (fun i (_ : nat) => c i) : M).
        change (mmul n F (mmul n Fi cv) a O = c a).
        rewrite <- mmul_assoc_pt.
        rewrite (mmul_compat_l n n 1 (mmul n F Fi) mI cv HF1 a O Ha ltac:(lia)).
        apply (mmul_I_l n 1 cv a O Ha). lia. }
      exists Li. split; [split|].
      * intros i j Hi Hj.
        rewrite (mmul_compat_l (Datatypes.S n) (Datatypes.S n) (Datatypes.S n) L (consF s c F) Li HLc i j Hi Hj).
        unfold Li. rewrite mmul_consF, mI_consF.
        destruct i as [|i'], j as [|j']; cbn [consF].
        -- field. exact Hs.
        -- reflexivity.
        -- transitivity ((c i' - sum n (fun l => F i' l * v l)) / s).
           ++ assert (E : sum n (fun l => F i' l * (- v l / s)) = - sum n (fun l => F i' l * v l) / s).
              { transitivity (sum n (fun l => (- (1) / s) * (F i' l * v l))).
                - apply sum_ext. intros l _. field. exact Hs.
                - rewrite sum_scale_l. field. exact Hs. }
              rewrite E. field. exact Hs.
           ++ rewrite HFv by lia. field. exact Hs.
        -- apply HF1; lia.
      * intros i j Hi Hj.
        rewrite (mmul_compat_r (Datatypes.S n) (Datatypes.S n) (Datatypes.S n) Li L (consF s c F) HLc i j Hi Hj).
        unfold Li. rewrite mmul_consF, mI_consF.
        destruct i as [|i'], j as [|j']; cbn [consF].
        -- field. exact Hs.
        -- reflexivity.
        -- fold (v i'). field. exact Hs.
        -- apply HF2; lia.
      * intros i j Hi Hj Hij. unfold Li.
        destruct i as [|i'], j as [|j']; cbn [consF]; try lia; try reflexivity.
        apply HFt; lia.
Qed.

End TriInv.

(* ------------------------------------------------------------------ the reals *)
Section RealChol.
Local Open Scope R_scope.
Notation MR := (@M RF).
Notation PDR := (@PD RF ROrd).
Notation PSDR := (@PSD RF ROrd).

Lemma PDR_diag_pos n (A : MR) k : PDR n A -> (k < n)%nat -> 0 < A k k.
Proof.
  intros HP Hk. destruct (@PD_diag_pos RF ROrd n A k HP Hk) as [H1 H2]. rf.
  destruct H1 as [H1|H1]; [exact H1|contradiction].
Qed.

(* one elimination step for a symmetric PD matrix: the leading entry is positive and the Schur
   complement  C - c c^T  (c = b / sqrt a) is again PD *)
Lemma pd_step n (A : MR) :
  symmetric (Datatypes.S n) A -> PDR (Datatypes.S n) A ->
  0 < A O O /\
  PDR n (fun i j => A (Datatypes.S i) (Datatypes.S j)
                    - A (Datatypes.S i) O / sqrt (A O O) * (A (Datatypes.S j) O / sqrt (A O O))).
Proof.
  intros HS HP.
  assert (Ha : 0 < A O O) by (apply (PDR_diag_pos (Datatypes.S n) A O HP); lia).
  split; [exact Ha|].
  set (a := A O O) in *.
  assert (Hs : sqrt a * sqrt a = a) by (apply sqrt_sqrt; lra).
  assert (Hs0 : sqrt a <> 0) by (intros E; rewrite E in Hs; lra).
  pose (Ainv := (fun _ _ => / a) : MR).
  assert (HI : @is_inverse RF 1 (@sub RF 0 0 A) Ainv).
  { split; intros i j Hi Hj; assert (i = O) by lia; assert (j = O) by lia; subst i j;
      unfold mmul, sub, mI, Ainv; cbn [sum Nat.add Nat.eqb]; rf; fold a; field; apply Rgt_not_eq; exact Ha. }
  pose proof (@schur_pd RF ROrd 1 n A Ainv HS HP HI) as H.
  refine (@PD_meq RF ROrd n _ _ _ H).
  intros i j Hi Hj. unfold msub, sub, mmul, mT, Ainv. cbn [sum Nat.add]. rf.
  set (r := sqrt a) in *. rewrite <- Hs. field. exact Hs0.
Qed.

(* Cholesky factorisation of a symmetric positive definite matrix: A = L L^T, L lower triangular
   with strictly positive diagonal, every n *)
Theorem pd_has_cholesky n : forall (A : MR),
  symmetric n A -> PDR n A ->
  exists L : MR, (forall i k, (i < k)%nat -> L i k = 0) /\ (forall i, (i < n)%nat -> 0 < L i i) /\
                 meq n n A (gram n L).
Proof.
  induction n as [|n IH]; intros A HS HP.
  - exists (fun _ _ => 0). split; [reflexivity|]. split; [intros i Hi; exfalso; lia|intros i j Hi; exfalso; lia].
  - destruct (pd_step n A HS HP) as [Ha HP'].
    set (s := sqrt (A O O)) in *. set (c := fun i => A (Datatypes.S i) O / s) in *.
    assert (Hss : s * s = A O O) by (apply sqrt_sqrt; lra).
    assert (Hs : 0 < s) by (apply sqrt_lt_R0; exact Ha).
    destruct (IH (fun i j => A (Datatypes.S i) (Datatypes.S j) - c i * c j)) as (F & Htri & Hpos & HF).
    + intros i j Hi Hj. unfold mT.
      rewrite (HS (Datatypes.S i) (Datatypes.S j) ltac:(lia) ltac:(lia)). unfold mT. rf. ring.
    + exact HP'.
    + exists (@consF RF s c F). split; [|split].
      * intros i k Hik. destruct i as [|i'], k as [|k']; cbn [consF]; try lia; try reflexivity.
        apply Htri. lia.
      * intros i Hi. destruct i as [|i']; cbn [consF]; [exact Hs|apply Hpos; lia].
      * assert (E1 : forall x : R, x = s * (x / s)) by (intros; field; lra).
        assert (E2 : forall x : R, x = x / s * s) by (intros; field; lra).
        intros i j Hi Hj. rewrite gram_consF. rf.
        destruct i as [|i'], j as [|j'].
        -- symmetry; exact Hss.
        -- rewrite (HS O (Datatypes.S j') ltac:(lia) ltac:(lia)). unfold mT, c. rf. apply E1.
        -- unfold c. rf. apply E2.
        -- rewrite <- (HF i' j' ltac:(lia) ltac:(lia)). rf. lra.
Qed.

(* the factor together with its (lower-triangular, two-sided) inverse *)
Theorem pd_cholesky_inverse n (A : MR) :
  symmetric n A -> PDR n A ->
  exists L Li : MR,
    @tri_lower RF n L /\ (forall i, (i < n)%nat -> 0 < L i i) /\
    @meq RF n n (@mmul RF n L (@mT RF L)) A /\
    @is_inverse RF n L Li /\ @tri_lower RF n Li.
Proof.
  intros HS HP. destruct (pd_has_cholesky n A HS HP) as (L & Htri & Hpos & HL).
  assert (HT : @tri_lower RF n L) by (intros i j _ _ Hij; apply Htri; exact Hij).
  destruct (@tri_lower_has_inverse RF n L HT) as (Li & HLi & HLit).
  - intros i Hi E. specialize (Hpos i Hi). rf. lra.
  - exists L, Li. split; [exact HT|]. split; [exact Hpos|]. split; [symmetry; exact HL|].
    split; assumption.
Qed.

(* a symmetric PD matrix is invertible *)
Corollary pd_has_inverse n (A : MR) :
  symmetric n A -> PDR n A -> exists Ai : MR, @is_inverse RF n A Ai.
Proof.
  intros HS HP. destruct (pd_cholesky_inverse n A HS HP) as (L & Li & _ & _ & HL & HLi & _).
  exists (@mmul RF n (@mT RF Li) Li). apply (@gram_inverse RF n L Li A HL HLi).
Qed.

Lemma dprod_pos_R n (f : nat -> R) : (forall i, (i < n)%nat -> 0 < f i) -> 0 < @dprod RF n f.
Proof.
  induction n as [|n IH]; intros H; cbn [dprod]; [rf; lra|].
  assert (0 < @dprod RF n f) by (apply IH; intros; apply H; lia).
  specialize (H n ltac:(lia)). rf. apply Rmult_lt_0_compat; assumption.
Qed.

(* the (Laplace) determinant of a symmetric PD matrix is positive *)
Corollary pd_det_pos n (A : MR) : symmetric n A -> PDR n A -> 0 < @det RF n A.
Proof.
  intros HS HP. destruct (pd_cholesky_inverse n A HS HP) as (L & Li & HT & Hpos & HL & _ & _).
  rewrite <- (@det_ext RF n _ _ HL), (@det_tri_gram_lower RF n L HT). rf.
  pose proof (dprod_pos_R n (fun i => L i i) Hpos). apply Rmult_lt_0_compat; assumption.
Qed.

(* conversely any right-invertible square factor gives a symmetric PD matrix *)
Lemma gram_invertible_pd n (L Li : MR) :
  @meq RF n n (@mmul RF n L Li) mI -> PDR n (gram n L) /\ symmetric n (gram n L).
Proof.
  intros HI. split.
  - split; [apply (@PSD_gram RF ROrd)|].
    intros x (k & Hk & Hx) E.
    (* x^T L L^T x = |L^T x|^2 = 0 forces L^T x = 0, hence x = Li^T L^T x = 0 *)
    assert (Eq : @qform RF n (gram n L) x = @sum RF n (fun l => @tvec RF n L x l * @tvec RF n L x l)).
    { pose proof (@qform_congr RF n n L mI x) as Q.
      rewrite <- (@qform_ext RF n (mmul n (mmul n L mI) (mT L)) (gram n L) x) .
      - rewrite Q. unfold qform, bform. apply (@sum_ext RF). intros i Hi.
        rewrite (@sum_single RF n i); [|exact Hi|].
        + unfold mI. rewrite Nat.eqb_refl. rf. ring.
        + intros j _ Hne. unfold mI. destruct (Nat.eqb_spec i j); [congruence|rf; ring].
      - unfold gram. apply mmul_compat_l. apply mmul_I_r. }
    rewrite Eq in E.
    assert (Z : forall m, (m <= n)%nat -> @sum RF m (fun l => @tvec RF n L x l * @tvec RF n L x l) = 0 ->
                forall l, (l < m)%nat -> @tvec RF n L x l = 0).
    { induction m as [|m IHm]; intros Hm Hz l Hl; [lia|]. cbn [sum] in Hz. rf.
      assert (N : 0 <= @sum RF m (fun l => @tvec RF n L x l * @tvec RF n L x l)).
      { clear. induction m as [|m IHm]; cbn [sum]; rf; [lra|]. nra. }
      rf.
      assert (Hsq : 0 <= @tvec RF n L x m * @tvec RF n L x m) by nra.
      destruct (Nat.eq_dec l m) as [->|Hne]; [nra|]. apply IHm; [lia|lra|lia]. }
    specialize (Z n (le_n n) E).
    apply Hx.
    (* x k = sum_l (L^T x)_l * Li k l ... via Li L = I *)
    transitivity (@sum RF n (fun l => @tvec RF n L x l * Li l k)).
    + unfold tvec.
      transitivity (@sum RF n (fun i => x i * @mmul RF n L Li i k)).
      * rewrite (@sum_single RF n k); [|exact Hk|].
        -- rewrite (HI k k Hk Hk). unfold mI. rewrite Nat.eqb_refl. rf. ring.
        -- intros i Hi Hne. rewrite (HI i k Hi Hk). unfold mI.
           destruct (Nat.eqb_spec i k); [congruence|rf; ring].
      * unfold mmul.
        transitivity (@sum RF n (fun i => @sum RF n (fun l => x i * L i l * Li l k))).
        -- apply (@sum_ext RF). intros i _. rewrite <- (@sum_scale_l RF).
           apply (@sum_ext RF). intros l _. rf. ring.
        -- rewrite (@sum_swap RF). apply (@sum_ext RF). intros l _.
           rewrite <- (@sum_scale_r RF). reflexivity.
    + apply (@sum_zero RF). intros l Hl. rewrite (Z l Hl). rf. ring.
  - intros i j Hi Hj. unfold mT, gram, mmul, mT. apply (@sum_ext RF). intros; rf; ring.
Qed.

(* any root L of A that has a right inverse makes A symmetric PD *)
Lemma gram_root_pd n (L Li A : MR) :
  @meq RF n n (@mmul RF n L (@mT RF L)) A -> @meq RF n n (@mmul RF n L Li) mI ->
  symmetric n A /\ PDR n A.
Proof.
  intros HA HI. destruct (gram_invertible_pd n L Li HI) as [HP HS]. split.
  - intros i j Hi Hj. unfold mT. rewrite <- (HA i j Hi Hj), <- (HA j i Hj Hi). apply HS; assumption.
  - apply (@PD_meq RF ROrd n (gram n L) A HA HP).
Qed.

Lemma pd_mI n : symmetric n (@mI RF) /\ PDR n (@mI RF).
Proof.
  apply (gram_root_pd n mI mI mI).
  - transitivity (@mmul RF n mI mI); [apply mmul_compat_r; apply mT_mI|apply mmul_I_l].
  - apply mmul_I_l.
Qed.

(* characterisation: symmetric PD  <=>  L L^T with L lower triangular of positive diagonal *)
Theorem pd_iff_cholesky n (A : MR) :
  (symmetric n A /\ PDR n A) <->
  exists L : MR, @tri_lower RF n L /\ (forall i, (i < n)%nat -> 0 < L i i) /\
                 @meq RF n n (@mmul RF n L (@mT RF L)) A.
Proof.
  split.
  - intros [HS HP]. destruct (pd_cholesky_inverse n A HS HP) as (L & Li & H1 & H2 & H3 & _ & _).
    exists L. split; [exact H1|]. split; [exact H2|exact H3].
  - intros (L & HT & Hpos & HA).
    destruct (@tri_lower_has_inverse RF n L HT) as (Li & [HI _] & _).
    + intros i Hi E. specialize (Hpos i Hi). rf. lra.
    + apply (gram_root_pd n L Li A HA HI).
Qed.

(* every inverse of a symmetric PD matrix is symmetric PD *)
Corollary pd_inverse_pd n (A Ai : MR) :
  symmetric n A -> PDR n A -> @is_inverse RF n A Ai -> symmetric n Ai /\ PDR n Ai.
Proof.
  intros HS HP HI. split; [apply (@inverse_symmetric RF n A Ai HS HI)|].
  destruct (pd_cholesky_inverse n A HS HP) as (L & Li & _ & _ & HL & HLi & _).
  pose proof (@gram_inverse RF n L Li A HL HLi) as HI'.
  pose proof (@inverse_unique RF n A _ _ HI' HI) as E.
  (* Ai = Li^T Li = gram (Li^T), and L^T Li^T = I *)
  apply (@PD_meq RF ROrd n (gram n (@mT RF Li)) Ai).
  - intros i j Hi Hj. rewrite <- (E i j Hi Hj). reflexivity.
  - apply (gram_invertible_pd n (@mT RF Li) (@mT RF L)).
    destruct (@is_inverse_mT RF n L Li HLi) as [_ H2]. exact H2.
Qed.

(* ---- non-vacuity: a symmetric PD matrix that is NOT given in factored form ----------------- *)
Definition exPD : MR := fun i j => if Nat.eqb i j then 2 else 1.      (* [[2,1],[1,2]] *)

Lemma ex_pd_hyps_hold : symmetric 2 exPD /\ PDR 2 exPD.
Proof.
  split.
  - intros i j Hi Hj. unfold mT, exPD. rewrite Nat.eqb_sym. reflexivity.
  - apply PD_iff_strict_R. intros x (k & Hk & Hx). unfold qform, bform, exPD. cbn. rf.
    pose proof (Rle_0_sqr (x 0%nat + x 1%nat)) as H1. unfold Rsqr in H1.
    assert (H2 : 0 < x 0%nat * x 0%nat + x 1%nat * x 1%nat).
    { destruct k as [|[|k]]; [| |lia]; nra. }
    lra.
Qed.

End RealChol.
