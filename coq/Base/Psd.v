(* Positive semi-definiteness library.  Other properties import THIS file (not "C07" by name).

   Re-exported (proved in Proofs/C07_psd.v, C07_more.v, C07_gramform.v, over any ordered field
   [OrdFld K] unless marked R):
     class OrdFld (fle, instances ROrd, QcOrd);  bform, qform, tvec, gram, wgram, hadamard, hpow, kprod
     PSD n A := forall x, 0 <= x^T A x;   PSD_meq, PSD_madd, PSD_mscale, PSD_mzero, PSD_ones,
     PSD_mconst, PSD_gram, PSD_wgram, PSD_mdiag, PSD_congr (B A B^T), PSD_gather, PSD_diag_nn,
     PSD_hadamard_wgram, PSD_hpow_wgram, inv_psd, explained_psd, qform_congr, qform_madd,
     qform_mscale, qform_basis, schur_congr, schur_psd, explained_bordered, kprod_psd_l/_r,
     qform_S, qform_rank1_sub;
     (R) psd_has_cholesky / psd_has_gram_form / psd_iff_gram, hadamard_psd (Schur product theorem),
     kprod_psd, hpow_psd.
   Defined here: strict order [flt], positive definiteness [PD] as a quadratic form, its closure
   lemmas and [schur_pd]: the Schur complement of a symmetric PD matrix is PD. *)
From Coq Require Import Arith Lia Ring Field Setoid Morphisms List Bool Reals Lra.
From GPV Require Export Base.LinAlg Models.C07_psd Proofs.C07_psd Proofs.C07_more Proofs.C07_gramform.
From GPV Require Import Base.Exec Base.Expr.

Section PosDef.
Context {K : Fld} {O : OrdFld K}.
Add Field Ff_psdbase : (@FT K).
Local Open Scope fld_scope.

Definition flt (a b : car) : Prop := fle a b /\ a <> b.

(* x is not the zero vector of length n *)
Definition nonzero_vec (n : nat) (x : nat -> car) : Prop := exists i, (i < n)%nat /\ x i <> 0.

(* positive definite: the quadratic form is non-negative and vanishes only at 0 *)
Definition PD (n : nat) (A : M) : Prop :=
  PSD n A /\ forall x, nonzero_vec n x -> qform n A x <> 0.

Lemma PD_PSD n A : PD n A -> PSD n A.
Proof. intros [H _]. exact H. Qed.

Lemma PD_pos n A x : PD n A -> nonzero_vec n x -> flt 0 (qform n A x).
Proof.
  intros [HP HD] Hx. split; [apply HP|]. intros E. apply (HD x Hx). symmetry. exact E.
Qed.

Lemma qform_zero_vec n A x : (forall i, (i < n)%nat -> x i = 0) -> qform n A x = 0.
Proof.
  intros Hx. unfold qform, bform. apply sum_zero. intros i Hi. apply sum_zero. intros j Hj.
  rewrite (Hx i Hi). ring.
Qed.

(* with decidable equality of scalars (R, Qc) PD is the textbook "x <> 0 -> 0 < x^T A x" *)
Lemma zero_or_nonzero_vec n (x : nat -> car) :
  (forall a b : car, a = b \/ a <> b) ->
  (forall i, (i < n)%nat -> x i = 0) \/ nonzero_vec n x.
Proof.
  intros Hdec. induction n as [|n IH]; [left; intros i Hi; lia|].
  destruct IH as [Hz|(i & Hi & Hne)].
  - destruct (Hdec (x n) 0) as [E|Hne].
    + left. intros i Hi. destruct (Nat.eq_dec i n) as [->|Hin]; [exact E|apply Hz; lia].
    + right. exists n. split; [lia|exact Hne].
  - right. exists i. split; [lia|exact Hne].
Qed.

Lemma PD_iff_strict n A : (forall a b : car, a = b \/ a <> b) ->
  (PD n A <-> forall x, nonzero_vec n x -> flt 0 (qform n A x)).
Proof.
  intros Hdec. split.
  - intros H x Hx. apply PD_pos; assumption.
  - intros H. split.
    + intros x. destruct (zero_or_nonzero_vec n x Hdec) as [Hz|Hx].
      * rewrite (qform_zero_vec n A x Hz). apply fle_refl.
      * apply (H x Hx).
    + intros x Hx E. destruct (H x Hx) as [_ Hne]. apply Hne. symmetry. exact E.
Qed.

Lemma PD_meq n A B : meq n n A B -> PD n A -> PD n B.
Proof.
  intros H [HP HD]. split; [apply (PSD_meq n A B H HP)|].
  intros x Hx. rewrite <- (qform_ext n A B x H). apply HD. exact Hx.
Qed.

(* diagonal entries of a PD matrix are positive *)
Lemma PD_diag_pos n A k : PD n A -> (k < n)%nat -> flt 0 (A k k).
Proof.
  intros HA Hk. rewrite <- (qform_basis n A k Hk). apply PD_pos; [exact HA|].
  exists k. split; [exact Hk|]. rewrite Nat.eqb_refl.
  intros E. apply (F_1_neq_0 (@FT K)). exact E.
Qed.

(* congruence with a matrix whose transpose action is injective: B A B^T is PD *)
Lemma PD_congr n k B A :
  (forall x, nonzero_vec n x -> nonzero_vec k (tvec n B x)) ->
  PD k A -> PD n (mmul k (mmul k B A) (mT B)).
Proof.
  intros Hinj [HP HD]. split; [apply PSD_congr; exact HP|].
  intros x Hx. rewrite qform_congr. apply HD. apply Hinj. exact Hx.
Qed.

(* a leading principal block of a PD matrix is PD *)
Lemma PD_leading n t A : PD (n + t) A -> PD n A.
Proof.
  intros [HP HD].
  assert (E : forall x, qform n A x = qform (n + t) A (fun i => if Nat.ltb i n then x i else 0)).
  { intros x. unfold qform, bform. rewrite sum_split.
    rewrite (sum_zero t); [|intros i _; apply sum_zero; intros j _;
      destruct (Nat.ltb_spec (n + i) n); [lia|ring]].
    transitivity (sum n (fun i => sum n (fun j => x i * A i j * x j)) + 0); [ring|]. f_equal.
    apply sum_ext. intros i Hi. rewrite sum_split.
    rewrite (sum_zero t); [|intros j _; destruct (Nat.ltb_spec (n + j) n); [lia|ring]].
    transitivity (sum n (fun j => x i * A i j * x j) + 0); [ring|]. f_equal.
    apply sum_ext. intros j Hj.
    destruct (Nat.ltb_spec i n); [|lia]. destruct (Nat.ltb_spec j n); [|lia]. reflexivity. }
  split.
  - intros x. rewrite E. apply HP.
  - intros x (i & Hi & Hne). rewrite E. apply HD. exists i. split; [lia|].
    destruct (Nat.ltb_spec i n); [exact Hne|lia].
Qed.

(* ---- the Schur complement of a symmetric PD matrix is PD --------------------------------- *)
(* J = [[A, X^T],[X, D]] on n + t rows:  D - X A^-1 X^T = B J B^T  with  B = [-X A^-1 | I],
   and B^T x carries x in its last t coordinates, so it is non-zero when x is *)
Lemma tvec_schur_B_tail n t XA x j : (j < t)%nat ->
  tvec t (schur_B n XA) x (n + j)%nat = x j.
Proof.
  intros Hj. unfold tvec, schur_B, hstack.
  rewrite (sum_single t j); [|exact Hj|].
  - destruct (Nat.ltb_spec (n + j) n); [lia|]. unfold mI.
    replace (n + j - n)%nat with j by lia. rewrite Nat.eqb_refl. ring.
  - intros i _ Hij. destruct (Nat.ltb_spec (n + j) n); [lia|]. unfold mI.
    replace (n + j - n)%nat with j by lia. destruct (Nat.eqb_spec i j); [contradiction|ring].
Qed.

Theorem schur_pd n t J Ainv :
  symmetric (n + t) J -> PD (n + t) J -> is_inverse n (sub 0 0 J) Ainv ->
  PD t (msub (sub n n J) (mmul n (sub n 0 J) (mmul n Ainv (mT (sub n 0 J))))).
Proof.
  intros HS HP HI. apply (PD_meq t _ _ (schur_congr n t J Ainv HS HI)).
  apply PD_congr; [|exact HP].
  intros x (j & Hj & Hne). exists (n + j)%nat. split; [lia|].
  rewrite tvec_schur_B_tail by exact Hj. exact Hne.
Qed.

(* the Schur complement of a symmetric matrix is symmetric *)
Lemma schur_symmetric n t J Ainv :
  symmetric (n + t) J -> is_inverse n (sub 0 0 J) Ainv ->
  symmetric t (msub (sub n n J) (mmul n (sub n 0 J) (mmul n Ainv (mT (sub n 0 J))))).
Proof.
  intros HS HI.
  assert (HAs : symmetric n (sub 0 0 J)).
  { intros i j Hi Hj. unfold mT, sub. cbn [Nat.add]. apply HS; lia. }
  assert (HAis : symmetric n Ainv) by (apply (inverse_symmetric n (sub 0 0 J)); assumption).
  set (X := sub n 0 J).
  assert (E : meq t t (mT (mmul n X (mmul n Ainv (mT X)))) (mmul n X (mmul n Ainv (mT X)))).
  { transitivity (mmul n (mT (mmul n Ainv (mT X))) (mT X)); [apply mT_mmul|].
    transitivity (mmul n (mmul n (mT (mT X)) (mT Ainv)) (mT X)); [apply mmul_compat_l; apply mT_mmul|].
    transitivity (mmul n (mT (mT X)) (mmul n (mT Ainv) (mT X))); [apply mmul_assoc|].
    apply mmul_compat; [apply mT_mT|]. apply mmul_compat_l. symmetry. exact HAis. }
  intros i j Hi Hj.
  change (sub n n J i j - mmul n X (mmul n Ainv (mT X)) i j
          = sub n n J j i - mmul n X (mmul n Ainv (mT X)) j i).
  pose proof (E j i Hj Hi) as E'.
  change (mmul n X (mmul n Ainv (mT X)) i j = mmul n X (mmul n Ainv (mT X)) j i) in E'.
  rewrite E'. f_equal. unfold sub. apply HS; lia.
Qed.

End PosDef.

(* ---- instances: decidable equality, so PD is the textbook strict definition ---------------- *)
Lemma PD_iff_strict_R n (A : @M RF) :
  @PD RF ROrd n A <-> forall x, @nonzero_vec RF n x -> (0 < @qform RF n A x)%R.
Proof.
  rewrite (@PD_iff_strict RF ROrd n A).
  - split; intros H x Hx; specialize (H x Hx).
    + destruct H as [H1 H2]. cbn in H1, H2. destruct H1 as [H1|H1]; [exact H1|contradiction].
    + split; cbn; [left; exact H|apply Rlt_not_eq; exact H].
  - intros a b. destruct (Req_dec a b); [left|right]; assumption.
Qed.
