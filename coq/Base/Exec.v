(* Executable layer: list materialisation of function matrices (generic), the Qc instance of
   [Fld], an UNVERIFIED Gauss-Jordan inverse whose result is certificate-checked inside the
   model, a Laplace-expansion determinant, and the serialisation of results as [list Z]. *)
From Coq Require Import Arith Lia List Bool ZArith QArith Qcanon.
From GPV Require Import Base.LinAlg.
Import ListNotations.

Section Lists.
Context {K : Fld}.
Local Open Scope fld_scope.

Definition to_list (n m : nat) (A : M) : list (list car) :=
  map (fun i => map (fun j => A i j) (seq 0 m)) (seq 0 n).
Definition of_list (l : list (list car)) : M :=
  fun i j => nth j (nth i l []) 0.
(* [mat] is the identity up to [meq]; it only forces evaluation once under vm_compute *)
Definition mat (n m : nat) (A : M) : M := of_list (to_list n m A).

Lemma nth_map_seq {T} (d : T) (f : nat -> T) n i : (i < n)%nat ->
  nth i (map f (seq 0 n)) d = f i.
Proof.
  intros Hi. rewrite (nth_indep _ d (f O)) by (rewrite map_length, seq_length; exact Hi).
  rewrite map_nth. rewrite seq_nth by exact Hi. reflexivity.
Qed.

Lemma mat_meq n m A : meq n m (mat n m A) A.
Proof.
  intros i j Hi Hj. unfold mat, of_list, to_list.
  rewrite (nth_map_seq [] _ n i Hi). rewrite (nth_map_seq 0 _ m j Hj). reflexivity.
Qed.

Definition vec_to_list (n : nat) (A : M) : list car := map (fun i => A i O) (seq 0 n).
Definition vec_of_list (l : list car) : M := fun i _ => nth i l 0.

(* Laplace expansion along the first column, on lists of rows; the DEFINITION of det used by
   the models (exponential cost, used for n <= 6 only). *)
Fixpoint remove_nth {T} (k : nat) (l : list T) : list T :=
  match l, k with
  | [], _ => []
  | _ :: r, O => r
  | x :: r, S k' => x :: remove_nth k' r
  end.

Fixpoint det_fuel (fuel : nat) (rows : list (list car)) : car :=
  match fuel with
  | O => 1
  | S fuel' =>
      match rows with
      | [] => 1
      | _ =>
        let n := length rows in
        (fix go (k : nat) (sign : bool) (acc : car) (rs : list (list car)) {struct rs} : car :=
           match rs with
           | [] => acc
           | r :: rest =>
               let a := hd 0 r in
               let minor := map (@tl car) (remove_nth k rows) in
               let term := a * det_fuel fuel' minor in
               go (S k) (negb sign) (if sign then acc - term else acc + term) rest
           end) O false 0 rows
      end
  end.
Definition det_list (rows : list (list car)) : car := det_fuel (length rows) rows.
Definition det (n : nat) (A : M) : car := det_list (to_list n n A).

End Lists.

(* ------------------------------------------------------------------ Qc instance *)

Global Instance QcF : Fld := {|
  car := Qc; f0 := 0%Qc; f1 := 1%Qc;
  fadd := Qcplus; fmul := Qcmult; fsub := Qcminus; fopp := Qcopp;
  fdiv := Qcdiv; finv := Qcinv; FT := Qcft |}.

Definition qc (n : Z) (d : positive) : Qc := Q2Qc (n # d).

Definition Qc_eqb (a b : Qc) : bool := Qeq_bool (this a) (this b).
Lemma Qc_eqb_eq a b : Qc_eqb a b = true -> a = b.
Proof.
  unfold Qc_eqb. intros H. apply Qc_is_canon. apply Qeq_bool_iff. exact H.
Qed.

Definition meqb (n m : nat) (A B : @M QcF) : bool :=
  forallb (fun i => forallb (fun j => Qc_eqb (A i j) (B i j)) (seq 0 m)) (seq 0 n).

Lemma meqb_sound n m A B : meqb n m A B = true -> meq n m A B.
Proof.
  unfold meqb. intros H i j Hi Hj.
  rewrite forallb_forall in H. specialize (H i).
  assert (Hin : In i (seq 0 n)) by (apply in_seq; lia).
  specialize (H Hin). rewrite forallb_forall in H. specialize (H j).
  assert (Hjn : In j (seq 0 m)) by (apply in_seq; lia).
  apply Qc_eqb_eq. exact (H Hjn).
Qed.

(* ---- unverified Gauss-Jordan on lists of rows (result is checked by [inv_checked]) *)

Definition row := list Qc.
Definition rscale (c : Qc) (r : row) : row := map (fun x => (c * x)%Qc) r.
Definition raxpy (c : Qc) (r s : row) : row :=   (* s - c*r *)
  map (fun p => (snd p - c * fst p)%Qc) (combine r s).

Fixpoint find_pivot (c : nat) (rows : list row) (k : nat) : option nat :=
  match rows with
  | [] => None
  | r :: rest => if Qc_eqb (nth c r 0%Qc) 0%Qc then find_pivot c rest (S k) else Some k
  end.

Definition swap_to_front {T} (k : nat) (l : list T) : list T :=
  match nth_error l k with
  | Some x => x :: remove_nth k l
  | None => l
  end.

(* [done] = rows already holding pivots (in order), [todo] = remaining rows *)
Fixpoint gj (fuel c : nat) (done todo : list row) : option (list row) :=
  match fuel with
  | O => match todo with [] => Some done | _ => None end
  | S fuel' =>
      match find_pivot c todo O with
      | None => None
      | Some k =>
          match swap_to_front k todo with
          | [] => None
          | p :: rest =>
              let p' := rscale (/ nth c p 0)%Qc p in
              let elim := fun r => raxpy (nth c r 0%Qc) p' r in
              gj fuel' (S c) (map elim done ++ [p']) (map elim rest)
          end
      end
  end.

Definition identity_rows (n : nat) : list row :=
  map (fun i => map (fun j => if Nat.eqb i j then 1%Qc else 0%Qc) (seq 0 n)) (seq 0 n).

Definition gj_inverse (n : nat) (A : @M QcF) : option (@M QcF) :=
  let aug := map (fun p => fst p ++ snd p) (combine (to_list n n A) (identity_rows n)) in
  match gj n O [] aug with
  | None => None
  | Some rows => Some (of_list (map (skipn n) rows))
  end.

Definition inv_checked (n : nat) (A : @M QcF) : option (@M QcF) :=
  match gj_inverse n A with
  | None => None
  | Some Mi =>
      let Mi := mat n n Mi in
      if meqb n n (mmul n A Mi) mI && meqb n n (mmul n Mi A) mI then Some Mi else None
  end.

Lemma inv_checked_sound n A Mi : inv_checked n A = Some Mi -> is_inverse n A Mi.
Proof.
  unfold inv_checked. destruct (gj_inverse n A) as [M0|]; [|discriminate].
  destruct (meqb n n (mmul n A (mat n n M0)) mI) eqn:H1; [|discriminate].
  destruct (meqb n n (mmul n (mat n n M0) A) mI) eqn:H2; [|discriminate].
  cbn [andb]. intros H. injection H as <-.
  split; apply meqb_sound; assumption.
Qed.

(* ---- serialisation: every result is a [list Z]; a rational is two entries *)

Definition ser_qc (q : Qc) : list Z := [Qnum (this q); Zpos (Qden (this q))].
Definition ser_mat (n m : nat) (A : @M QcF) : list Z :=
  flat_map (fun r => flat_map ser_qc r) (to_list n m A).
Definition ser_opt {T} (f : T -> list Z) (o : option T) : list Z :=
  match o with None => [0%Z] | Some x => 1%Z :: f x end.
