(* Generic-field linear algebra: finite sums, matrices as total functions with explicit
   dimensions, blocks, inverses.  One class [Fld] packages a carrier with a [field_theory]
   over Leibniz equality; every lemma is proved once for any instance (Qc executable, R for
   order/analysis).  No axioms. *)
From Coq Require Import Arith Lia Ring Field Bool List Setoid Morphisms.
Import ListNotations.

Class Fld := {
  car : Type;
  f0 : car; f1 : car;
  fadd : car -> car -> car; fmul : car -> car -> car; fsub : car -> car -> car;
  fopp : car -> car; fdiv : car -> car -> car; finv : car -> car;
  FT : field_theory f0 f1 fadd fmul fsub fopp fdiv finv (@eq car)
}.

Declare Scope fld_scope.
Delimit Scope fld_scope with F.
Notation "0" := f0 : fld_scope.
Notation "1" := f1 : fld_scope.
Infix "+" := fadd : fld_scope.
Infix "*" := fmul : fld_scope.
Infix "-" := fsub : fld_scope.
Infix "/" := fdiv : fld_scope.
Notation "- x" := (fopp x) : fld_scope.

Section LinAlg.
Context {K : Fld}.
Add Field Ff_linalg : (@FT K).
Local Open Scope fld_scope.

(* ------------------------------------------------------------------ sums *)

Fixpoint sum (n : nat) (f : nat -> car) : car :=
  match n with
  | O => 0
  | S k => sum k f + f k
  end.

Lemma sum_ext n f g : (forall i, (i < n)%nat -> f i = g i) -> sum n f = sum n g.
Proof.
  induction n as [|n IH]; intros H; cbn [sum]; [reflexivity|].
  rewrite IH by (intros i Hi; apply H; lia). rewrite H by lia. reflexivity.
Qed.

Lemma sum_zero n f : (forall i, (i < n)%nat -> f i = 0) -> sum n f = 0.
Proof.
  induction n as [|n IH]; intros H; cbn [sum]; [reflexivity|].
  rewrite IH by (intros i Hi; apply H; lia). rewrite H by lia. ring.
Qed.

Lemma sum_add n f g : sum n (fun i => f i + g i) = sum n f + sum n g.
Proof. induction n as [|n IH]; cbn [sum]; [ring|]. rewrite IH. ring. Qed.

Lemma sum_sub n f g : sum n (fun i => f i - g i) = sum n f - sum n g.
Proof. induction n as [|n IH]; cbn [sum]; [ring|]. rewrite IH. ring. Qed.

Lemma sum_opp n f : sum n (fun i => - f i) = - sum n f.
Proof. induction n as [|n IH]; cbn [sum]; [ring|]. rewrite IH. ring. Qed.

Lemma sum_scale_l n c f : sum n (fun i => c * f i) = c * sum n f.
Proof. induction n as [|n IH]; cbn [sum]; [ring|]. rewrite IH. ring. Qed.

Lemma sum_scale_r n c f : sum n (fun i => f i * c) = sum n f * c.
Proof. induction n as [|n IH]; cbn [sum]; [ring|]. rewrite IH. ring. Qed.

Lemma sum_swap n m (f : nat -> nat -> car) :
  sum n (fun i => sum m (fun j => f i j)) = sum m (fun j => sum n (fun i => f i j)).
Proof.
  induction n as [|n IH]; cbn [sum].
  - symmetry. apply sum_zero. reflexivity.
  - rewrite IH. rewrite <- sum_add. reflexivity.
Qed.

Lemma sum_split n m f : sum (n + m) f = sum n f + sum m (fun i => f (n + i)%nat).
Proof.
  induction m as [|m IH].
  - rewrite Nat.add_0_r. cbn [sum]. ring.
  - rewrite Nat.add_succ_r. cbn [sum]. rewrite IH. ring.
Qed.

Lemma sum_single n k f : (k < n)%nat -> (forall i, (i < n)%nat -> i <> k -> f i = 0) ->
  sum n f = f k.
Proof.
  induction n as [|n IH]; intros Hk H; [lia|]. cbn [sum].
  destruct (Nat.eq_dec k n) as [->|Hne].
  - rewrite sum_zero; [ring|]. intros i Hi. apply H; lia.
  - rewrite IH by (try lia; intros i Hi Hik; apply H; lia).
    rewrite (H n) by lia. ring.
Qed.

Lemma sum_S_first n f : sum (S n) f = f O + sum n (fun i => f (S i)).
Proof.
  change (S n) with (1 + n)%nat. rewrite sum_split. cbn [sum Nat.add]. ring.
Qed.

(* sum over the elements of an index list *)
Fixpoint lsum (l : list nat) (f : nat -> car) : car :=
  match l with
  | [] => 0
  | x :: r => f x + lsum r f
  end.

Lemma lsum_seq n f : lsum (seq 0 n) f = sum n f.
Proof.
  assert (H : forall s, lsum (seq s n) f = sum n (fun i => f (s + i)%nat)).
  { induction n as [|n IH]; intros s; [reflexivity|]. cbn [seq lsum].
    rewrite IH. rewrite (sum_S_first n (fun i => f (s + i)%nat)).
    rewrite Nat.add_0_r. f_equal. apply sum_ext. intros i _. f_equal. lia. }
  rewrite H. apply sum_ext. reflexivity.
Qed.

(* ------------------------------------------------------------------ matrices *)

Definition M := nat -> nat -> car.

Definition meq (m n : nat) (A B : M) : Prop :=
  forall i j, (i < m)%nat -> (j < n)%nat -> A i j = B i j.

Lemma meq_refl m n A : meq m n A A.
Proof. intros i j _ _. reflexivity. Qed.
Lemma meq_sym m n A B : meq m n A B -> meq m n B A.
Proof. intros H i j Hi Hj. symmetry. apply H; assumption. Qed.
Lemma meq_trans m n A B C : meq m n A B -> meq m n B C -> meq m n A C.
Proof. intros H1 H2 i j Hi Hj. rewrite H1 by assumption. apply H2; assumption. Qed.

Global Instance meq_equiv m n : Equivalence (meq m n).
Proof.
  split; [intros A; apply meq_refl | intros A B; apply meq_sym
         | intros A B C; apply meq_trans].
Qed.

Definition mzero : M := fun _ _ => 0.
Definition mI : M := fun i j => if Nat.eqb i j then 1 else 0.
Definition madd (A B : M) : M := fun i j => A i j + B i j.
Definition msub (A B : M) : M := fun i j => A i j - B i j.
Definition mopp (A : M) : M := fun i j => - A i j.
Definition mscale (c : car) (A : M) : M := fun i j => c * A i j.
Definition mT (A : M) : M := fun i j => A j i.
Definition mmul (k : nat) (A B : M) : M := fun i j => sum k (fun l => A i l * B l j).
Definition mdiag (d : nat -> car) : M := fun i j => if Nat.eqb i j then d i else 0.
Definition symmetric (n : nat) (A : M) : Prop := meq n n A (mT A).

Lemma madd_compat m n A A' B B' :
  meq m n A A' -> meq m n B B' -> meq m n (madd A B) (madd A' B').
Proof. intros HA HB i j Hi Hj. unfold madd. rewrite HA, HB by assumption. reflexivity. Qed.
Lemma msub_compat m n A A' B B' :
  meq m n A A' -> meq m n B B' -> meq m n (msub A B) (msub A' B').
Proof. intros HA HB i j Hi Hj. unfold msub. rewrite HA, HB by assumption. reflexivity. Qed.
Lemma mopp_compat m n A A' : meq m n A A' -> meq m n (mopp A) (mopp A').
Proof. intros HA i j Hi Hj. unfold mopp. rewrite HA by assumption. reflexivity. Qed.
Lemma mscale_compat m n c A A' : meq m n A A' -> meq m n (mscale c A) (mscale c A').
Proof. intros HA i j Hi Hj. unfold mscale. rewrite HA by assumption. reflexivity. Qed.
Lemma mT_compat m n A A' : meq m n A A' -> meq n m (mT A) (mT A').
Proof. intros HA i j Hi Hj. unfold mT. apply HA; assumption. Qed.
Lemma mmul_compat m k n A A' B B' :
  meq m k A A' -> meq k n B B' -> meq m n (mmul k A B) (mmul k A' B').
Proof.
  intros HA HB i j Hi Hj. unfold mmul. apply sum_ext. intros l Hl.
  rewrite HA, HB by assumption. reflexivity.
Qed.
Lemma mmul_compat_l m k n A A' B :
  meq m k A A' -> meq m n (mmul k A B) (mmul k A' B).
Proof. intros HA. apply mmul_compat; [assumption|apply meq_refl]. Qed.
Lemma mmul_compat_r m k n A B B' :
  meq k n B B' -> meq m n (mmul k A B) (mmul k A B').
Proof. intros HB. apply mmul_compat; [apply meq_refl|assumption]. Qed.

Global Instance madd_proper m n : Proper (meq m n ==> meq m n ==> meq m n) madd.
Proof. intros A A' HA B B' HB. apply madd_compat; assumption. Qed.
Global Instance msub_proper m n : Proper (meq m n ==> meq m n ==> meq m n) msub.
Proof. intros A A' HA B B' HB. apply msub_compat; assumption. Qed.
Global Instance mopp_proper m n : Proper (meq m n ==> meq m n) mopp.
Proof. intros A A' HA. apply mopp_compat; assumption. Qed.
Global Instance mscale_proper m n c : Proper (meq m n ==> meq m n) (mscale c).
Proof. intros A A' HA. apply mscale_compat; assumption. Qed.
Global Instance mT_proper m n : Proper (meq m n ==> meq n m) mT.
Proof. intros A A' HA. apply mT_compat; assumption. Qed.
Global Instance mmul_proper m k n : Proper (meq m k ==> meq k n ==> meq m n) (mmul k).
Proof. intros A A' HA B B' HB. apply mmul_compat; assumption. Qed.

(* pointwise (dimension-free) identities: stated with Leibniz equality on entries *)
Lemma mmul_assoc_pt k l A B C i j :
  mmul l (mmul k A B) C i j = mmul k A (mmul l B C) i j.
Proof.
  unfold mmul.
  transitivity (sum l (fun b => sum k (fun a => A i a * B a b * C b j))).
  - apply sum_ext. intros b _. rewrite <- sum_scale_r. reflexivity.
  - rewrite sum_swap. apply sum_ext. intros a _. rewrite <- sum_scale_l.
    apply sum_ext. intros b _. ring.
Qed.

Lemma mmul_assoc m n k l A B C :
  meq m n (mmul l (mmul k A B) C) (mmul k A (mmul l B C)).
Proof. intros i j _ _. apply mmul_assoc_pt. Qed.

Lemma mmul_I_r m n A : meq m n (mmul n A mI) A.
Proof.
  intros i j Hi Hj. unfold mmul, mI.
  rewrite (sum_single n j); [rewrite Nat.eqb_refl; ring|assumption|].
  intros l Hl Hne. destruct (Nat.eqb_spec l j); [contradiction|ring].
Qed.

Lemma mmul_I_l m n A : meq m n (mmul m mI A) A.
Proof.
  intros i j Hi Hj. unfold mmul, mI.
  rewrite (sum_single m i); [rewrite Nat.eqb_refl; ring|assumption|].
  intros l Hl Hne. destruct (Nat.eqb_spec i l); [congruence|ring].
Qed.

Lemma mmul_add_distr_l m n k A B C :
  meq m n (mmul k A (madd B C)) (madd (mmul k A B) (mmul k A C)).
Proof.
  intros i j _ _. unfold mmul, madd. rewrite <- sum_add. apply sum_ext. intros; ring.
Qed.
Lemma mmul_add_distr_r m n k A B C :
  meq m n (mmul k (madd A B) C) (madd (mmul k A C) (mmul k B C)).
Proof.
  intros i j _ _. unfold mmul, madd. rewrite <- sum_add. apply sum_ext. intros; ring.
Qed.
Lemma mmul_sub_distr_l m n k A B C :
  meq m n (mmul k A (msub B C)) (msub (mmul k A B) (mmul k A C)).
Proof.
  intros i j _ _. unfold mmul, msub. rewrite <- sum_sub. apply sum_ext. intros; ring.
Qed.
Lemma mmul_sub_distr_r m n k A B C :
  meq m n (mmul k (msub A B) C) (msub (mmul k A C) (mmul k B C)).
Proof.
  intros i j _ _. unfold mmul, msub. rewrite <- sum_sub. apply sum_ext. intros; ring.
Qed.
Lemma mmul_opp_l m n k A B : meq m n (mmul k (mopp A) B) (mopp (mmul k A B)).
Proof.
  intros i j _ _. unfold mmul, mopp. rewrite <- sum_opp. apply sum_ext. intros; ring.
Qed.
Lemma mmul_opp_r m n k A B : meq m n (mmul k A (mopp B)) (mopp (mmul k A B)).
Proof.
  intros i j _ _. unfold mmul, mopp. rewrite <- sum_opp. apply sum_ext. intros; ring.
Qed.
Lemma mmul_scale_l m n k c A B : meq m n (mmul k (mscale c A) B) (mscale c (mmul k A B)).
Proof.
  intros i j _ _. unfold mmul, mscale. rewrite <- sum_scale_l. apply sum_ext. intros; ring.
Qed.
Lemma mmul_scale_r m n k c A B : meq m n (mmul k A (mscale c B)) (mscale c (mmul k A B)).
Proof.
  intros i j _ _. unfold mmul, mscale. rewrite <- sum_scale_l. apply sum_ext. intros; ring.
Qed.
Lemma mmul_zero_l m n k B : meq m n (mmul k mzero B) mzero.
Proof. intros i j _ _. unfold mmul, mzero. apply sum_zero. intros; ring. Qed.
Lemma mmul_zero_r m n k A : meq m n (mmul k A mzero) mzero.
Proof. intros i j _ _. unfold mmul, mzero. apply sum_zero. intros; ring. Qed.

Lemma mT_mmul m n k A B : meq m n (mT (mmul k A B)) (mmul k (mT B) (mT A)).
Proof. intros i j _ _. unfold mT, mmul. apply sum_ext. intros; ring. Qed.
Lemma mT_mT m n A : meq m n (mT (mT A)) A.
Proof. intros i j _ _. reflexivity. Qed.
Lemma mT_madd m n A B : meq m n (mT (madd A B)) (madd (mT A) (mT B)).
Proof. intros i j _ _. reflexivity. Qed.
Lemma mT_msub m n A B : meq m n (mT (msub A B)) (msub (mT A) (mT B)).
Proof. intros i j _ _. reflexivity. Qed.
Lemma mT_mI m n : meq m n (mT mI) mI.
Proof. intros i j _ _. unfold mT, mI. rewrite Nat.eqb_sym. reflexivity. Qed.

Lemma madd_comm m n A B : meq m n (madd A B) (madd B A).
Proof. intros i j _ _. unfold madd. ring. Qed.
Lemma madd_assoc m n A B C : meq m n (madd (madd A B) C) (madd A (madd B C)).
Proof. intros i j _ _. unfold madd. ring. Qed.
Lemma madd_zero_r m n A : meq m n (madd A mzero) A.
Proof. intros i j _ _. unfold madd, mzero. ring. Qed.
Lemma madd_zero_l m n A : meq m n (madd mzero A) A.
Proof. intros i j _ _. unfold madd, mzero. ring. Qed.
Lemma msub_diag m n A : meq m n (msub A A) mzero.
Proof. intros i j _ _. unfold msub, mzero. ring. Qed.
Lemma msub_zero_r m n A : meq m n (msub A mzero) A.
Proof. intros i j _ _. unfold msub, mzero. ring. Qed.
Lemma msub_madd m n A B C : meq m n (msub A (madd B C)) (msub (msub A B) C).
Proof. intros i j _ _. unfold msub, madd. ring. Qed.
Lemma msub_eq_zero m n A B : meq m n (msub A B) mzero <-> meq m n A B.
Proof.
  split; intros H i j Hi Hj; specialize (H i j Hi Hj); unfold msub, mzero in *.
  - transitivity ((A i j - B i j) + B i j); [ring|]. rewrite H. ring.
  - rewrite H. ring.
Qed.

(* ------------------------------------------------------------------ blocks *)

Definition sub (r c : nat) (A : M) : M := fun i j => A (r + i)%nat (c + j)%nat.

Definition blk (n m : nat) (A B C D : M) : M := fun i j =>
  if Nat.ltb i n then (if Nat.ltb j m then A i j else B i (j - m)%nat)
  else (if Nat.ltb j m then C (i - n)%nat j else D (i - n)%nat (j - m)%nat).

Definition vstack (n : nat) (A C : M) : M := fun i j =>
  if Nat.ltb i n then A i j else C (i - n)%nat j.
Definition hstack (m : nat) (A B : M) : M := fun i j =>
  if Nat.ltb j m then A i j else B i (j - m)%nat.

Lemma sub_blk_00 n m p q A B C D : (p <= n)%nat -> (q <= m)%nat ->
  meq p q (sub 0 0 (blk n m A B C D)) A.
Proof.
  intros Hp Hq i j Hi Hj. unfold sub, blk. cbn [Nat.add].
  destruct (Nat.ltb_spec i n); [|lia]. destruct (Nat.ltb_spec j m); [|lia]. reflexivity.
Qed.
Lemma sub_blk_01 n m p q A B C D : (p <= n)%nat ->
  meq p q (sub 0 m (blk n m A B C D)) B.
Proof.
  intros Hp i j Hi Hj. unfold sub, blk. cbn [Nat.add].
  destruct (Nat.ltb_spec i n); [|lia]. destruct (Nat.ltb_spec (m + j) m); [lia|].
  f_equal. lia.
Qed.
Lemma sub_blk_10 n m p q A B C D : (q <= m)%nat ->
  meq p q (sub n 0 (blk n m A B C D)) C.
Proof.
  intros Hq i j Hi Hj. unfold sub, blk. cbn [Nat.add].
  destruct (Nat.ltb_spec (n + i) n); [lia|]. destruct (Nat.ltb_spec j m); [|lia].
  f_equal. lia.
Qed.
Lemma sub_blk_11 n m p q A B C D :
  meq p q (sub n m (blk n m A B C D)) D.
Proof.
  intros i j Hi Hj. unfold sub, blk.
  destruct (Nat.ltb_spec (n + i) n); [lia|]. destruct (Nat.ltb_spec (m + j) m); [lia|].
  f_equal; lia.
Qed.

(* any matrix is the block matrix of its four sub-matrices *)
Lemma blk_of_subs n m p q A :
  meq (n + p) (m + q) A (blk n m (sub 0 0 A) (sub 0 m A) (sub n 0 A) (sub n m A)).
Proof.
  intros i j Hi Hj. unfold blk, sub. cbn [Nat.add].
  destruct (Nat.ltb_spec i n); destruct (Nat.ltb_spec j m); f_equal; lia.
Qed.

Lemma blk_compat n m p q A A' B B' C C' D D' :
  meq n m A A' -> meq n q B B' -> meq p m C C' -> meq p q D D' ->
  meq (n + p) (m + q) (blk n m A B C D) (blk n m A' B' C' D').
Proof.
  intros HA HB HC HD i j Hi Hj. unfold blk.
  destruct (Nat.ltb_spec i n); destruct (Nat.ltb_spec j m);
    [apply HA|apply HB|apply HC|apply HD]; lia.
Qed.

Lemma mmul_blk m1 m2 k1 k2 n1 n2 A B C D E G H J :
  meq (m1 + m2) (n1 + n2)
    (mmul (k1 + k2) (blk m1 k1 A B C D) (blk k1 n1 E G H J))
    (blk m1 n1 (madd (mmul k1 A E) (mmul k2 B H)) (madd (mmul k1 A G) (mmul k2 B J))
               (madd (mmul k1 C E) (mmul k2 D H)) (madd (mmul k1 C G) (mmul k2 D J))).
Proof.
  intros i j Hi Hj. unfold mmul at 1. rewrite sum_split.
  unfold blk, madd, mmul.
  destruct (Nat.ltb_spec i m1); destruct (Nat.ltb_spec j n1); f_equal;
    apply sum_ext; intros l Hl;
    repeat match goal with
    | |- context [Nat.ltb ?a ?b] => destruct (Nat.ltb_spec a b); try lia
    end;
    repeat (f_equal; try lia).
Qed.

Lemma mT_blk n m p q A B C D :
  meq (m + q) (n + p) (mT (blk n m A B C D)) (blk m n (mT A) (mT C) (mT B) (mT D)).
Proof.
  intros i j Hi Hj. unfold mT, blk.
  destruct (Nat.ltb_spec j n); destruct (Nat.ltb_spec i m); reflexivity.
Qed.

(* identity as a block matrix *)
Lemma mI_blk n p : meq (n + p) (n + p) mI (blk n n mI mzero mzero mI).
Proof.
  intros i j Hi Hj. unfold mI, blk, mzero.
  destruct (Nat.ltb_spec i n); destruct (Nat.ltb_spec j n);
    destruct (Nat.eqb_spec i j); try reflexivity; try lia.
  - destruct (Nat.eqb_spec (i - n) (j - n)); [reflexivity|lia].
  - destruct (Nat.eqb_spec (i - n) (j - n)); [lia|reflexivity].
Qed.

(* gather: rows / columns selected by index functions (lists are turned into functions
   by [nth] in the executable layer) *)
Definition gather (r c : nat -> nat) (A : M) : M := fun i j => A (r i) (c j).

Lemma gather_gather r1 c1 r2 c2 A i j :
  gather r2 c2 (gather r1 c1 A) i j = gather (fun x => r1 (r2 x)) (fun x => c1 (c2 x)) A i j.
Proof. reflexivity. Qed.
Lemma gather_mT r c A i j : gather r c (mT A) i j = mT (gather c r A) i j.
Proof. reflexivity. Qed.
Lemma gather_madd r c A B i j : gather r c (madd A B) i j = madd (gather r c A) (gather r c B) i j.
Proof. reflexivity. Qed.
Lemma gather_mmul k r c A B i j :
  gather r c (mmul k A B) i j = mmul k (gather r (fun x => x) A) (gather (fun x => x) c B) i j.
Proof. reflexivity. Qed.

(* ------------------------------------------------------------------ inverses *)

Definition is_inverse (n : nat) (A Ai : M) : Prop :=
  meq n n (mmul n A Ai) mI /\ meq n n (mmul n Ai A) mI.

Lemma is_inverse_sym n A Ai : is_inverse n A Ai -> is_inverse n Ai A.
Proof. intros [H1 H2]. split; assumption. Qed.

Lemma inverse_unique n A B C : is_inverse n A B -> is_inverse n A C -> meq n n B C.
Proof.
  intros [HB1 HB2] [HC1 HC2].
  transitivity (mmul n B mI); [symmetry; apply mmul_I_r|].
  transitivity (mmul n B (mmul n A C)); [apply mmul_compat_r; symmetry; exact HC1|].
  transitivity (mmul n (mmul n B A) C); [symmetry; apply mmul_assoc|].
  transitivity (mmul n mI C); [apply mmul_compat_l; exact HB2|].
  apply mmul_I_l.
Qed.

Lemma is_inverse_mT n A Ai : is_inverse n A Ai -> is_inverse n (mT A) (mT Ai).
Proof.
  intros [H1 H2]. split.
  - transitivity (mT (mmul n Ai A)); [symmetry; apply mT_mmul|].
    transitivity (mT mI); [apply mT_compat; exact H2|apply mT_mI].
  - transitivity (mT (mmul n A Ai)); [symmetry; apply mT_mmul|].
    transitivity (mT mI); [apply mT_compat; exact H1|apply mT_mI].
Qed.

Lemma inverse_symmetric n A Ai : symmetric n A -> is_inverse n A Ai -> symmetric n Ai.
Proof.
  intros HS HI. unfold symmetric.
  apply (inverse_unique n A); [exact HI|].
  destruct (is_inverse_mT n A Ai HI) as [H1 H2]. split.
  - transitivity (mmul n (mT A) (mT Ai)); [apply mmul_compat_l; exact HS|exact H1].
  - transitivity (mmul n (mT Ai) (mT A)); [apply mmul_compat_r; exact HS|exact H2].
Qed.

(* left-cancellation: A X = B  <->  X = Ai B *)
Lemma solve_unique n p A Ai X B : is_inverse n A Ai ->
  meq n p (mmul n A X) B <-> meq n p X (mmul n Ai B).
Proof.
  intros [H1 H2]. split; intros H.
  - transitivity (mmul n mI X); [symmetry; apply mmul_I_l|].
    transitivity (mmul n (mmul n Ai A) X); [apply mmul_compat_l; symmetry; exact H2|].
    transitivity (mmul n Ai (mmul n A X)); [apply mmul_assoc|].
    apply mmul_compat_r; exact H.
  - transitivity (mmul n A (mmul n Ai B)); [apply mmul_compat_r; exact H|].
    transitivity (mmul n (mmul n A Ai) B); [symmetry; apply mmul_assoc|].
    transitivity (mmul n mI B); [apply mmul_compat_l; exact H1|apply mmul_I_l].
Qed.

(* right-cancellation: X A = B  <->  X = B Ai *)
Lemma solve_unique_r n p A Ai X B : is_inverse n A Ai ->
  meq p n (mmul n X A) B <-> meq p n X (mmul n B Ai).
Proof.
  intros [H1 H2]. split; intros H.
  - transitivity (mmul n X mI); [symmetry; apply mmul_I_r|].
    transitivity (mmul n X (mmul n A Ai)); [apply mmul_compat_r; symmetry; exact H1|].
    transitivity (mmul n (mmul n X A) Ai); [symmetry; apply mmul_assoc|].
    apply mmul_compat_l; exact H.
  - transitivity (mmul n (mmul n B Ai) A); [apply mmul_compat_l; exact H|].
    transitivity (mmul n B (mmul n Ai A)); [apply mmul_assoc|].
    transitivity (mmul n B mI); [apply mmul_compat_r; exact H2|apply mmul_I_r].
Qed.

End LinAlg.

(* entrywise tactic: reduce a matrix equation to scalar goals *)
Ltac mat_pt := let i := fresh "i" in let j := fresh "j" in let Hi := fresh "Hi" in
  let Hj := fresh "Hj" in intros i j Hi Hj;
  unfold madd, msub, mopp, mscale, mT, mzero in *.
