(* Symbolic scalars: a free term algebra over Qc constants with a denotation into R.
   Models whose values leave the rationals (exp, log, sqrt, ...) are run on [expr]; the
   harness evaluates the printed term with mpmath.  [den] is the meaning used in theorems. *)
From Coq Require Import ZArith QArith Qcanon List Reals Qreals.
From Coquelicot Require Import Coquelicot.
From GPV Require Import Base.LinAlg Base.Exec.
Import ListNotations.

Inductive expr : Type :=
| EConst (q : Qc)
| EPi
| EAdd (a b : expr) | ESub (a b : expr) | EMul (a b : expr) | EDiv (a b : expr)
| ENeg (a : expr)
| EExp (a : expr) | ELog (a : expr) | ESqrt (a : expr)
| ESin (a : expr) | ECos (a : expr) | EAtan (a : expr) | EAcos (a : expr)
| EPow (a b : expr)            (* real power a^b, a > 0 *)
| EIPow (a : expr) (n : nat)   (* natural power *)
| EAbs (a : expr) | EMax (a b : expr) | EMin (a b : expr)
| EPhi (a : expr)              (* standard normal cdf *)
| ELgamma (a : expr)           (* log Gamma, a > 0 *)
| ETanh (a : expr).

Definition Q2R' (q : Qc) : R := Q2R (this q).

Definition std_normal_pdf (t : R) : R := (exp (- (t * t) / 2) / sqrt (2 * PI))%R.
Definition std_normal_cdf (x : R) : R := (1 / 2 + RInt std_normal_pdf 0 x)%R.
Definition Gamma_fn (x : R) : R :=
  RInt_gen (fun t => (Rpower t (x - 1) * exp (- t))%R) (at_right 0) (Rbar_locally p_infty).

Fixpoint den (e : expr) : R :=
  match e with
  | EConst q => Q2R' q
  | EPi => PI
  | EAdd a b => (den a + den b)%R
  | ESub a b => (den a - den b)%R
  | EMul a b => (den a * den b)%R
  | EDiv a b => (den a / den b)%R
  | ENeg a => (- den a)%R
  | EExp a => exp (den a)
  | ELog a => ln (den a)
  | ESqrt a => sqrt (den a)
  | ESin a => sin (den a)
  | ECos a => cos (den a)
  | EAtan a => atan (den a)
  | EAcos a => acos (den a)
  | EPow a b => Rpower (den a) (den b)
  | EIPow a n => pow (den a) n
  | EAbs a => Rabs (den a)
  | EMax a b => Rmax (den a) (den b)
  | EMin a b => Rmin (den a) (den b)
  | EPhi a => std_normal_cdf (den a)
  | ELgamma a => ln (Gamma_fn (den a))
  | ETanh a => tanh (den a)
  end.

(* prefix serialisation: tag, then payload *)
Fixpoint ser_expr (e : expr) : list Z :=
  match e with
  | EConst q => 0%Z :: ser_qc q
  | EPi => [1%Z]
  | EAdd a b => 2%Z :: ser_expr a ++ ser_expr b
  | ESub a b => 3%Z :: ser_expr a ++ ser_expr b
  | EMul a b => 4%Z :: ser_expr a ++ ser_expr b
  | EDiv a b => 5%Z :: ser_expr a ++ ser_expr b
  | ENeg a => 6%Z :: ser_expr a
  | EExp a => 7%Z :: ser_expr a
  | ELog a => 8%Z :: ser_expr a
  | ESqrt a => 9%Z :: ser_expr a
  | ESin a => 10%Z :: ser_expr a
  | ECos a => 11%Z :: ser_expr a
  | EAtan a => 12%Z :: ser_expr a
  | EAcos a => 13%Z :: ser_expr a
  | EPow a b => 14%Z :: ser_expr a ++ ser_expr b
  | EIPow a n => 15%Z :: Z.of_nat n :: ser_expr a
  | EAbs a => 16%Z :: ser_expr a
  | EMax a b => 17%Z :: ser_expr a ++ ser_expr b
  | EMin a b => 18%Z :: ser_expr a ++ ser_expr b
  | EPhi a => 19%Z :: ser_expr a
  | ELgamma a => 20%Z :: ser_expr a
  | ETanh a => 21%Z :: ser_expr a
  end.

(* light constant folding keeps printed terms small; [den] is preserved (proved below for the
   folding constructors that are used by models) *)
Definition eadd (a b : expr) : expr :=
  match a, b with EConst x, EConst y => EConst (x + y)%Qc | _, _ => EAdd a b end.
Definition esub (a b : expr) : expr :=
  match a, b with EConst x, EConst y => EConst (x - y)%Qc | _, _ => ESub a b end.
Definition emul (a b : expr) : expr :=
  match a, b with EConst x, EConst y => EConst (x * y)%Qc | _, _ => EMul a b end.
Definition eneg (a : expr) : expr :=
  match a with EConst x => EConst (- x)%Qc | _ => ENeg a end.

Lemma Q2R'_plus x y : Q2R' (x + y)%Qc = (Q2R' x + Q2R' y)%R.
Proof.
  unfold Q2R'. rewrite <- Q2R_plus. apply Qeq_eqR. unfold Qcplus. cbn [this].
  apply Qred_correct.
Qed.
Lemma Q2R'_mult x y : Q2R' (x * y)%Qc = (Q2R' x * Q2R' y)%R.
Proof.
  unfold Q2R'. rewrite <- Q2R_mult. apply Qeq_eqR. unfold Qcmult. cbn [this].
  apply Qred_correct.
Qed.
Lemma Q2R'_opp x : Q2R' (- x)%Qc = (- Q2R' x)%R.
Proof.
  unfold Q2R'. rewrite <- Q2R_opp. apply Qeq_eqR. unfold Qcopp. cbn [this].
  apply Qred_correct.
Qed.
Lemma Q2R'_minus x y : Q2R' (x - y)%Qc = (Q2R' x - Q2R' y)%R.
Proof. unfold Qcminus. rewrite Q2R'_plus, Q2R'_opp. reflexivity. Qed.

Lemma den_eadd a b : den (eadd a b) = (den a + den b)%R.
Proof. destruct a, b; try reflexivity. cbn [eadd den]. apply Q2R'_plus. Qed.
Lemma den_esub a b : den (esub a b) = (den a - den b)%R.
Proof. destruct a, b; try reflexivity. cbn [esub den]. apply Q2R'_minus. Qed.
Lemma den_emul a b : den (emul a b) = (den a * den b)%R.
Proof. destruct a, b; try reflexivity. cbn [emul den]. apply Q2R'_mult. Qed.
Lemma den_eneg a : den (eneg a) = (- den a)%R.
Proof. destruct a; try reflexivity. cbn [eneg den]. apply Q2R'_opp. Qed.

(* the R instance of Fld, for statements that need order / analysis *)
Global Instance RF : Fld := {|
  car := R; f0 := 0%R; f1 := 1%R;
  fadd := Rplus; fmul := Rmult; fsub := Rminus; fopp := Ropp;
  fdiv := Rdiv; finv := Rinv; FT := RealField.Rfield |}.
