(* Python index / slice semantics on Z (CPython's PySlice_AdjustIndices and range()). *)
From Coq Require Import ZArith List Lia Bool.
Import ListNotations.
Local Open Scope Z_scope.

(* a[i] with negative wrap; None = IndexError *)
Definition norm_index (len i : Z) : option Z :=
  if (0 <=? i) && (i <? len) then Some i
  else if (i <? 0) && (0 <=? i + len) then Some (i + len)
  else None.

Record pyslice := { s_start : option Z; s_stop : option Z; s_step : option Z }.

Definition clamp_bound (len lower upper : Z) (v : Z) : Z :=
  if v <? 0 then Z.max (v + len) lower else Z.min v upper.

(* slice.indices(len): (start, stop, step); step = 0 is a ValueError (None) *)
Definition slice_indices (len : Z) (s : pyslice) : option (Z * Z * Z) :=
  let step := match s_step s with None => 1 | Some k => k end in
  if step =? 0 then None else
  let lower := if step <? 0 then -1 else 0 in
  let upper := if step <? 0 then len - 1 else len in
  let start := match s_start s with
               | None => if step <? 0 then upper else lower
               | Some v => clamp_bound len lower upper v end in
  let stop := match s_stop s with
              | None => if step <? 0 then lower else upper
              | Some v => clamp_bound len lower upper v end in
  Some (start, stop, step).

Definition range_len (start stop step : Z) : Z :=
  if 0 <? step then (if start <? stop then (stop - start - 1) / step + 1 else 0)
  else if step <? 0 then (if stop <? start then (start - stop - 1) / (- step) + 1 else 0)
  else 0.

Definition range_list (start stop step : Z) : list Z :=
  map (fun k => start + Z.of_nat k * step) (seq 0 (Z.to_nat (range_len start stop step))).

(* the list of positions selected by a slice on a sequence of length len *)
Definition slice_positions (len : Z) (s : pyslice) : option (list Z) :=
  match slice_indices len s with
  | None => None
  | Some (a, b, k) => Some (range_list a b k)
  end.

Lemma range_len_nonneg a b k : 0 <= range_len a b k.
Proof.
  unfold range_len.
  destruct (0 <? k) eqn:Hk.
  - destruct (a <? b) eqn:Hab; [|lia].
    apply Z.ltb_lt in Hk. apply Z.ltb_lt in Hab.
    assert (0 <= (b - a - 1) / k) by (apply Z.div_pos; lia). lia.
  - destruct (k <? 0) eqn:Hk'; [|lia].
    destruct (b <? a) eqn:Hab; [|lia].
    apply Z.ltb_lt in Hk'. apply Z.ltb_lt in Hab.
    assert (0 <= (a - b - 1) / (- k)) by (apply Z.div_pos; lia). lia.
Qed.

Lemma range_list_length a b k : Z.of_nat (length (range_list a b k)) = range_len a b k.
Proof.
  unfold range_list. rewrite map_length, seq_length. apply Z2Nat.id. apply range_len_nonneg.
Qed.

(* membership characterisation for positive steps *)
Lemma range_list_in_pos a b k x : 0 < k ->
  In x (range_list a b k) <-> (a <= x < b /\ (x - a) mod k = 0).
Proof.
  intros Hk. unfold range_list. rewrite in_map_iff. split.
  - intros [i [Hx Hi]]. apply in_seq in Hi. subst x.
    assert (Hlen : Z.of_nat i < range_len a b k).
    { destruct Hi as [_ Hi]. cbn in Hi. apply Nat2Z.inj_lt in Hi.
      rewrite Z2Nat.id in Hi by apply range_len_nonneg. exact Hi. }
    unfold range_len in Hlen. destruct (0 <? k) eqn:E; [|apply Z.ltb_ge in E; lia].
    destruct (a <? b) eqn:Hab; [|lia]. apply Z.ltb_lt in Hab.
    assert (Hq : Z.of_nat i <= (b - a - 1) / k) by lia.
    assert (Hm : k * ((b - a - 1) / k) <= b - a - 1) by (apply Z.mul_div_le; lia).
    split.
    + split; [nia|]. nia.
    + replace (a + Z.of_nat i * k - a) with (Z.of_nat i * k) by ring. apply Z_mod_mult.
  - intros [[Hax Hxb] Hmod].
    exists (Z.to_nat ((x - a) / k)). split.
    + rewrite Z2Nat.id by (apply Z.div_pos; lia).
      pose proof (Z_div_mod_eq_full (x - a) k) as Hdm. rewrite Hmod in Hdm. lia.
    + apply in_seq. split; [lia|]. cbn. apply Z2Nat.inj_lt.
      * apply Z.div_pos; lia.
      * apply range_len_nonneg.
      * unfold range_len. destruct (0 <? k) eqn:E; [|apply Z.ltb_ge in E; lia].
        destruct (a <? b) eqn:Hab; [|apply Z.ltb_ge in Hab; lia].
        assert ((x - a) / k <= (b - a - 1) / k) by (apply Z.div_le_mono; lia). lia.
Qed.

(* every position produced by a slice of a sequence of length len is a valid position *)
Lemma slice_positions_valid len s l x : 0 <= len ->
  slice_positions len s = Some l -> In x l -> 0 <= x < len.
Proof.
  intros Hlen. unfold slice_positions, slice_indices.
  set (step := match s_step s with Some k => k | None => 1 end).
  destruct (step =? 0) eqn:Hs0; [discriminate|]. apply Z.eqb_neq in Hs0.
  intros H. injection H as <-. unfold range_list. rewrite in_map_iff.
  intros [i [Hx Hi]]. apply in_seq in Hi. destruct Hi as [_ Hi]. cbn in Hi.
  apply Nat2Z.inj_lt in Hi. rewrite Z2Nat.id in Hi by apply range_len_nonneg.
  revert Hi Hx. unfold range_len, clamp_bound.
  destruct (step <? 0) eqn:Hneg.
  - apply Z.ltb_lt in Hneg. destruct (0 <? step) eqn:Hpos; [apply Z.ltb_lt in Hpos; lia|].
    set (a := match s_start s with Some v => _ | None => _ end).
    set (b := match s_stop s with Some v => _ | None => _ end).
    assert (Ha : -1 <= a <= len - 1).
    { subst a. destruct (s_start s) as [v|]; [|lia]. destruct (v <? 0) eqn:E; lia. }
    assert (Hb : -1 <= b <= len - 1).
    { subst b. destruct (s_stop s) as [v|]; [|lia]. destruct (v <? 0) eqn:E; lia. }
    destruct (b <? a) eqn:Hab; [|lia]. apply Z.ltb_lt in Hab.
    intros Hi Hx. subst x.
    assert (Hm : (- step) * ((a - b - 1) / (- step)) <= a - b - 1) by (apply Z.mul_div_le; lia).
    nia.
  - apply Z.ltb_ge in Hneg. destruct (0 <? step) eqn:Hpos; [|apply Z.ltb_ge in Hpos; lia].
    apply Z.ltb_lt in Hpos.
    set (a := match s_start s with Some v => _ | None => _ end).
    set (b := match s_stop s with Some v => _ | None => _ end).
    assert (Ha : 0 <= a <= len).
    { subst a. destruct (s_start s) as [v|]; [|lia]. destruct (v <? 0) eqn:E; lia. }
    assert (Hb : 0 <= b <= len).
    { subst b. destruct (s_stop s) as [v|]; [|lia]. destruct (v <? 0) eqn:E; lia. }
    destruct (a <? b) eqn:Hab; [|lia]. apply Z.ltb_lt in Hab.
    intros Hi Hx. subst x.
    assert (Hm : step * ((b - a - 1) / step) <= b - a - 1) by (apply Z.mul_div_le; lia).
    nia.
Qed.
