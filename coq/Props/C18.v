(* C18 — persistence round trips reproduce the model.
   Statement file: theorems, [exact lemma], Print Assumptions.  Nothing else.
   Model: Models/C18_persist.v (objects as finite maps attr -> (class, value)). *)
From Coq Require Import Arith List Bool.
From GPV Require Import Models.C18_persist Models.C03_cache Proofs.C03_cache Proofs.C18_persist.
Import ListNotations.

(* state_dict -> freshly constructed object: if every prediction-relevant attribute is carried
   (param/buffer on both sides) or is plain state the constructor re-creates with the same value,
   the restored object predicts what the original predicts — any number of attributes *)
Theorem c18_roundtrip_preserves_predict :
  forall o fresh rel, NoDup (map f_attr o) -> NoDup (map f_attr fresh) ->
    forallb (premise o fresh) rel = true ->
    predict rel (load fresh (state_dict o)) = predict rel o.
Proof. exact roundtrip_sd. Qed.
Print Assumptions c18_roundtrip_preserves_predict.

(* pickle / deepcopy: everything is carried except a dropped set; predictions that read nothing
   dropped are preserved *)
Theorem c18_copy_preserves_predict :
  forall o dropped rel, forallb (fun a => negb (memb a dropped)) rel = true ->
    predict rel (copy dropped o) = predict rel o.
Proof. exact roundtrip_copy. Qed.
Print Assumptions c18_copy_preserves_predict.

(* loading never leaves a cache behind, whatever object is loaded into *)
Theorem c18_load_clears_caches :
  forall target sd, Forall (fun f => is_cache f = false) (load target sd).
Proof. exact load_no_cache. Qed.
Print Assumptions c18_load_clears_caches.

(* ... and, composed with the C03 machine: load_state_dict at ANY point of an admissible history
   leaves no cache entry at all (so the next prediction is the fresh object's, C03) *)
Theorem c18_load_resets_c03_machine :
  forall fam h, wf_family fam = true -> admissible all_on fam init h = true -> keyed_history fam h = true ->
    cch (run all_on fam init (h ++ [OLoad])) = [] /\
    pv (run all_on fam init (h ++ [OLoad])) = S (pv (run all_on fam init h)).
Proof. exact load_resets_machine. Qed.
Print Assumptions c18_load_resets_c03_machine.

(* strict loading that succeeds leaves every param/buffer at its SAVED value *)
Theorem c18_load_strict_sound :
  forall target sd o', load_strict target sd = Some o' ->
    o' = load target sd /\
    forall f, In f o' -> carried f = true -> sd_get (f_attr f) sd = Some (f_val f).
Proof. exact load_strict_sound. Qed.
Print Assumptions c18_load_strict_sound.

(* the premise cannot be dropped: a lazily registered buffer (RFFKernel.randn_weights) is absent
   from the freshly constructed object; strict loading fails and non-strict loading loses it *)
Theorem c18_roundtrip_lazy_buffer_refuted :
  exists o fresh rel,
    NoDup (map f_attr o) /\ NoDup (map f_attr fresh) /\
    load_strict fresh (state_dict o) = None /\
    predict rel (load fresh (state_dict o)) <> predict rel o.
Proof. exact lazy_buffer_refuted. Qed.
Print Assumptions c18_roundtrip_lazy_buffer_refuted.

Example ex_c18_roundtrip :
  NoDup (map f_attr ex_o) /\ NoDup (map f_attr ex_fresh) /\ forallb (premise ex_o ex_fresh) [0; 1; 2] = true /\
  predict [0; 1; 2] (load ex_fresh (state_dict ex_o)) = [Some 11; Some 12; Some 13] /\
  load_strict ex_fresh (state_dict ex_o) = Some (load ex_fresh (state_dict ex_o)).
Proof. exact ex_roundtrip. Qed.
