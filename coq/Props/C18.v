(* C18 — persistence round trips reproduce the model.
   Statement file: theorems, [exact lemma], Print Assumptions.  Nothing else.
   Model: Models/C18_persist.v (objects as finite maps attr -> (class, value)). *)
From Coq Require Import Arith List Bool.
From GPV Require Import Models.C18_persist Models.C03_cache Proofs.C03_cache Proofs.C18_persist.
Import ListNotations.

(* state_dict -> freshly constructed object: if every prediction-relevant attribute is carried
   (param/buffer on both sides) or is plain state the constructor re-creates with the same value,
   the restored object predicts what the original predicts — any number of attributes *)
Theorem c18_roundtrip_preserves_predict :
  forall o fresh rel, NoDup (map f_attr o) -> NoDup (map f_attr fresh) ->
    forallb (premise o fresh) rel = true ->
    predict rel (load fresh (state_dict o)) = predict rel o.
Proof. exact roundtrip_sd. Qed.
Print Assumptions c18_roundtrip_preserves_predict.

(* pickle / deepcopy: everything is carried except a dropped set; predictions that read nothing
   dropped are preserved *)
Theorem c18_copy_preserves_predict :
  forall o dropped rel, forallb (fun a => negb (memb a dropped)) rel = true ->
    predict rel (copy dropped o) = predict rel o.
Proof. exact roundtrip_copy. Qed.
Print Assumptions c18_copy_preserves_predict.

(* loading never leaves a cache behind, whatever object is loaded into *)
Theorem c18_load_clears_caches :
  forall target sd, Forall (fun f => is_cache f = false) (load target sd).
Proof. exact load_no_cache. Qed.
Print Assumptions c18_load_clears_caches.

(* ... and, composed with the C03 machine: load_state_dict at ANY point of an admissible history
   leaves no cache entry at all (so the next prediction is the fresh object's, C03) *)
Theorem c18_load_resets_c03_machine :
  forall fam h, wf_family fam = true -> admissible all_on fam init h = true ->
    cch (run all_on fam init (h ++ [OLoad])) = [] /\
    pv (run all_on fam init (h ++ [OLoad])) = S (pv (run all_on fam init h)).
Proof. exact load_resets_machine. Qed.
Print Assumptions c18_load_resets_c03_machine.

(* strict loading that succeeds leaves every param/buffer at its SAVED value *)
Theorem c18_load_strict_sound :
  forall target sd o', load_strict target sd = Some o' ->
    o' = load target sd /\
    forall f, In f o' -> carried f = true -> sd_get (f_attr f) sd = Some (f_val f).
Proof. exact load_strict_sound. Qed.
Print Assumptions c18_load_strict_sound.

(* the premise cannot be dropped: a lazily registered buffer (RFFKernel.randn_weights) is absent
   from the freshly constructed object; strict loading fails and non-strict loading loses it *)
Theorem c18_roundtrip_lazy_buffer_refuted :
  exists o fresh rel,
    NoDup (map f_attr o) /\ NoDup (map f_attr fresh) /\
    load_strict fresh (state_dict o) = None /\
    predict rel (load fresh (state_dict o)) <> predict rel o.
Proof. exact lazy_buffer_refuted. Qed.
Print Assumptions c18_roundtrip_lazy_buffer_refuted.

(* ---- at ANY point of ANY history (composition with the C03 cache machine) ----
   A persisted object is an attribute table together with the C03 machine state; the table evolves
   with the operations of the history (optimiser steps and load_state_dict put ARBITRARY new values
   [nv] into parameters / params+buffers, set_train_data into the data attributes).  For a family
   without lazily registered buffers, whose freshly constructed object has unique attribute names and
   no caches: after every admissible history, saving the state_dict and loading it (strictly) into an
   object freshly constructed from the current constructor arguments, pickling, and deep-copying all
   yield an object with the same value of EVERY attribute set [rel] and the same eval-mode prediction
   under every configuration. *)
Theorem c18_persist_any_history :
  forall tf nv h rel c,
    wf_tfam tf = true -> t_lazy tf = [] -> wf_family (t_c03 tf) = true ->
    admissible all_on (t_c03 tf) init h = true -> c < f_ncfg (t_c03 tf) ->
    let p := prun tf nv (pinit tf) h in
    training (p_st p) = false ->
    pobserve tf rel (restore_sd tf p) c = pobserve tf rel p c /\
    pobserve tf rel (restore_pickle p) c = pobserve tf rel p c /\
    pobserve tf rel (restore_deepcopy tf p) c = pobserve tf rel p c.
Proof. exact persist_any_history. Qed.
Print Assumptions c18_persist_any_history.

(* the attribute-table half also holds in training mode and for unkeyed histories, and strict
   loading succeeds at every save point *)
Theorem c18_table_roundtrip_any_history :
  forall tf nv h rel, wf_tfam tf = true -> t_lazy tf = [] ->
    let p := prun tf nv (pinit tf) h in
    predict rel (load (construct tf (p_tbl p)) (state_dict (p_tbl p))) = predict rel (p_tbl p) /\
    load_strict (construct tf (p_tbl p)) (state_dict (p_tbl p)) =
      Some (load (construct tf (p_tbl p)) (state_dict (p_tbl p))).
Proof. exact table_roundtrip_any_history. Qed.
Print Assumptions c18_table_roundtrip_any_history.

(* with a lazily registered buffer (RFFKernel.randn_weights) the statement is REFUTED by the
   faithful model: a state_dict saved before the first call loads, one saved after any call is
   rejected by strict loading and loses the buffer under non-strict loading (finding
   C18-rff-lazy-randn-weights, reproduced on the real code by the driver) *)
Theorem c18_persist_any_history_lazy_refuted :
  wf_tfam tf_rff = true /\
  (forall nv, load_strict (construct tf_rff (p_tbl (prun tf_rff nv (pinit tf_rff) [])))
                          (state_dict (p_tbl (prun tf_rff nv (pinit tf_rff) []))) <> None) /\
  (forall nv, let p := prun tf_rff nv (pinit tf_rff) [OPredict 0] in
     admissible all_on fam_exact init [OPredict 0] = true /\ training (p_st p) = false /\
     load_strict (construct tf_rff (p_tbl p)) (state_dict (p_tbl p)) = None /\
     predict [7] (load (construct tf_rff (p_tbl p)) (state_dict (p_tbl p))) <> predict [7] (p_tbl p)).
Proof. exact lazy_history_refuted. Qed.
Print Assumptions c18_persist_any_history_lazy_refuted.

Example ex_c18_roundtrip :
  NoDup (map f_attr ex_o) /\ NoDup (map f_attr ex_fresh) /\ forallb (premise ex_o ex_fresh) [0; 1; 2] = true /\
  predict [0; 1; 2] (load ex_fresh (state_dict ex_o)) = [Some 11; Some 12; Some 13] /\
  load_strict ex_fresh (state_dict ex_o) = Some (load ex_fresh (state_dict ex_o)).
Proof. exact ex_roundtrip. Qed.

(* non-vacuity of the history theorems: a 12-operation admissible history through every kind of
   operation, ending in eval mode, after which parameters hold version-2 values and the training
   inputs version-1 values *)
Example ex_c18_persist_history :
  wf_tfam tf_exact = true /\ t_lazy tf_exact = [] /\ wf_family (t_c03 tf_exact) = true /\
  admissible all_on (t_c03 tf_exact) init ex_hist = true /\
  training (p_st (prun tf_exact (fun v a => 1000 * v + a) (pinit tf_exact) ex_hist)) = false /\
  predict [0; 1; 3] (p_tbl (prun tf_exact (fun v a => 1000 * v + a) (pinit tf_exact) ex_hist)) =
    [Some 2000; Some 2001; Some 1003].
Proof. exact ex_persist_history. Qed.
