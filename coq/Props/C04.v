(* C04 — Fantasy models equal conditioning from scratch; the source is untouched.
   Statement file: theorems, [exact lemma], Print Assumptions.  Nothing else.
   All theorems hold for every field K (Qc executable, R), all sizes n, m, t and all histories. *)
From Coq Require Import Arith List ZArith QArith Qcanon Reals.
(* C09's KISS-GP / WISKI prediction formulas (ski, wiski_fantasy_mean_cache, wiski_pred_cov) are loaded FIRST so that the
   C04 names (wiski_inner: W is N x g here, C09's takes the transpose) take precedence *)
From GPV Require Import Models.C09_structured Proofs.C09_textbook.
From GPV Require Import Base.LinAlg Base.Exec Base.Expr Base.Psd Models.C01_posterior Proofs.C01_posterior
  Models.C04_fantasy Proofs.C04_fantasy Proofs.C04_schur Models.C08_shape Models.C04_mtshape Proofs.C04_mtshape
  Models.C04_wiski Proofs.C04_wiski Proofs.C04_wiski_post.
Import ListNotations.
(* Base.Psd loads the R instance of Fld (declared after QcF); the executable examples below are over Qc *)
Local Existing Instance QcF | 0.

(* [a; b] (fant_cache_upper / fant_cache_lower) solves the bordered system
   [[A, U^T],[U, S_f]] [a; b] = [r; r_f], for all n, m (Appendix A of DESIGN.md) *)
Theorem c04_fantasy_mean_cache_correct :
  forall (K : Fld) n m A Ainv U Ut Sf Cinv r rf,
    is_inverse n A Ainv ->
    is_inverse m (schur n U (fant_solve n Ainv Ut) Sf) Cinv ->
    meq (n + m) 1
      (mmul (n + m) (bordered n A Ut U Sf)
         (fant_mean_cache n m U (fant_solve n Ainv Ut) Cinv (mmul n Ainv r) rf))
      (vstack n r rf).
Proof. intros K. exact (@fantasy_mean_cache_correct K). Qed.
Print Assumptions c04_fantasy_mean_cache_correct.

(* the same, under exactly what the code relies on: alpha and Q are solutions (however
   obtained) and Cinv is a right inverse of the Schur complement *)
Theorem c04_fantasy_mean_cache_solves :
  forall (K : Fld) n m A U Ut Sf Q Cinv alpha r rf,
    meq n 1 (mmul n A alpha) r -> meq n m (mmul n A Q) Ut ->
    meq m m (mmul m (schur n U Q Sf) Cinv) mI ->
    meq (n + m) 1
      (mmul (n + m) (bordered n A Ut U Sf) (fant_mean_cache n m U Q Cinv alpha rf))
      (vstack n r rf).
Proof. intros K. exact (@fantasy_mean_cache_solves K). Qed.
Print Assumptions c04_fantasy_mean_cache_solves.

(* the bordered (Schur) inverse formula is a two-sided inverse of the bordered matrix *)
Theorem c04_bordered_inverse_correct :
  forall (K : Fld) n m A Ainv U Ut Sf Cinv,
    is_inverse n A Ainv ->
    is_inverse m (schur n U (fant_solve n Ainv Ut) Sf) Cinv ->
    is_inverse (n + m) (bordered n A Ut U Sf) (bordered_inv n m Ainv U Ut Cinv).
Proof. intros K. exact (@bordered_inv_correct K). Qed.
Print Assumptions c04_bordered_inverse_correct.

(* schur_pd: the Schur complement S_f - U A^-1 U^T that get_fantasy_strategy hands to the Cholesky
   factorisation is positive definite (and symmetric) whenever the bordered train covariance
   [[A, U^T],[U, S_f]] of the concatenated data is symmetric positive definite; all n, m, any ordered
   field, any inverse of A.  [PD] (Base/Psd.v) is the quadratic-form definition:
   PD n M := (forall x, 0 <= x^T M x) /\ (forall x, x <> 0 on [0,n) -> x^T M x <> 0). *)
Theorem c04_schur_pd :
  forall (K : Fld) (O : OrdFld K) n m A U Ut Sf Ainv,
    symmetric (n + m) (bordered n A Ut U Sf) -> PD (n + m) (bordered n A Ut U Sf) ->
    is_inverse n A Ainv ->
    PD m (schur n U (fant_solve n Ainv Ut) Sf).
Proof. intros K O. exact (@schur_complement_pd K O). Qed.
Print Assumptions c04_schur_pd.

Theorem c04_schur_symmetric :
  forall (K : Fld) n m A U Ut Sf Ainv,
    symmetric (n + m) (bordered n A Ut U Sf) -> is_inverse n A Ainv ->
    symmetric m (schur n U (fant_solve n Ainv Ut) Sf).
Proof. intros K. exact (@schur_complement_symmetric K). Qed.
Print Assumptions c04_schur_symmetric.

(* the old train covariance is the leading block of the new one, hence PD as well: the hypothesis of
   c04_schur_pd is inherited along a chain of fantasy updates read backwards *)
Theorem c04_bordered_leading_pd :
  forall (K : Fld) (O : OrdFld K) n m A U Ut Sf,
    PD (n + m) (bordered n A Ut U Sf) -> PD n A.
Proof. intros K O. exact (@bordered_leading_pd K O). Qed.
Print Assumptions c04_bordered_leading_pd.

(* over R, PD is the textbook strict definition, and the lower-triangular (Cholesky) root of the
   Schur complement that the code computes exists *)
Theorem c04_pd_is_strict_positivity :
  forall n (A : @M RF),
    @PD RF ROrd n A <-> forall x, @nonzero_vec RF n x -> (0 < @qform RF n A x)%R.
Proof. exact PD_iff_strict_R. Qed.
Print Assumptions c04_pd_is_strict_positivity.

Theorem c04_schur_cholesky_exists :
  forall n m (A U Ut Sf Ainv : @M RF),
    symmetric (n + m) (bordered n A Ut U Sf) -> @PD RF ROrd (n + m) (bordered n A Ut U Sf) ->
    is_inverse n A Ainv ->
    exists G : @M RF,
      meq m m (mmul m G (mT G)) (schur n U (fant_solve n Ainv Ut) Sf) /\
      (forall i k, (i < k)%nat -> G i k = 0%R).
Proof. exact schur_complement_has_cholesky. Qed.
Print Assumptions c04_schur_cholesky_exists.

Example ex_c04_schur_pd_hyps :
  symmetric 2 exBr /\ @PD RF ROrd 2 exBr /\ is_inverse 1 (ex1r 2) (ex1r (/ 2)) /\
  schur 1 (ex1r 1) (fant_solve 1 (ex1r (/ 2)) (ex1r 1)) (ex1r 2) 0%nat 0%nat = (3 / 2)%R.
Proof. exact ex_schur_pd_hyps_holds. Qed.

(* cat_rows: the updated root Z = [[E,0],[UR,G]] and the updated inverse root
   R' = [[R, -R F^T G^-T],[0, G^-T]] keep the invariant  Z Z^T = A'  and  R' = Z^-T ... *)
Theorem c04_root_update_preserves :
  forall (K : Fld) n m A E R U Sf G Ginv,
    root_inv_pair n A E R ->
    meq m m (mmul m G (mT G)) (root_schur n Sf (root_lower_left n U R)) ->
    is_inverse m G Ginv ->
    root_inv_pair (n + m) (bordered n A (mT U) U Sf)
      (new_root n E (root_lower_left n U R) G)
      (new_inv_root n m R (root_lower_left n U R) Ginv).
Proof. intros K. exact (@root_update_preserves K). Qed.
Print Assumptions c04_root_update_preserves.

(* ... hence the carried inverse root satisfies R' R'^T = A'^-1 (what new_covar_cache is) *)
Theorem c04_new_inv_root_correct :
  forall (K : Fld) n m A E R U Sf G Ginv,
    root_inv_pair n A E R ->
    meq m m (mmul m G (mT G)) (root_schur n Sf (root_lower_left n U R)) ->
    is_inverse m G Ginv ->
    let R' := new_inv_root n m R (root_lower_left n U R) Ginv in
    is_inverse (n + m) (bordered n A (mT U) U Sf) (mmul (n + m) R' (mT R')).
Proof. intros K. exact (@new_inv_root_correct K). Qed.
Print Assumptions c04_new_inv_root_correct.

(* fast_pred_var on the fantasy model (covar_cache = R') gives the from-scratch covariance *)
Theorem c04_fantasy_fast_pred_var_exact :
  forall (K : Fld) n m t KJ S E R G Ginv Ainv',
    (forall N, symmetric N (train_covar KJ S)) ->
    root_inv_pair n (train_covar KJ S) E R ->
    let A := train_covar KJ S in
    let F := root_lower_left n (sub n 0 A) R in
    meq m m (mmul m G (mT G)) (root_schur n (sub n n A) F) ->
    is_inverse m G Ginv ->
    is_inverse (n + m) A Ainv' ->
    meq t t (cov_root (n + m) (n + m) KJ (new_inv_root n m R F Ginv)) (post_cov (n + m) KJ Ainv').
Proof. intros K. exact (@fantasy_fast_pred_var_exact K). Qed.
Print Assumptions c04_fantasy_fast_pred_var_exact.

(* one update: posterior computed from the updated caches = C01 posterior on the concatenated
   data (any inverse Ainv' of the full train covariance), for any sound solve oracle *)
Theorem c04_fantasy_equals_scratch :
  forall (K : Fld) inv KJ S muJ y n m t Ainv alpha st' Ainv',
    oracle_sound inv ->
    is_inverse n (train_covar KJ S) Ainv -> meq n 1 alpha (mean_cache n muJ Ainv y) ->
    fantasy_step inv KJ S (resid muJ y) (n, Ainv, alpha) m = Some st' ->
    is_inverse (n + m) (train_covar KJ S) Ainv' ->
    meq t 1 (post_mean_from_cache (n + m) KJ muJ (snd st')) (post_mean (n + m) KJ muJ Ainv' y)
    /\ meq t t (post_cov (n + m) KJ (snd (fst st'))) (post_cov (n + m) KJ Ainv').
Proof. intros K. exact (@fantasy_equals_scratch K). Qed.
Print Assumptions c04_fantasy_equals_scratch.

(* k successive updates (any k, any block sizes ms) = one conditioning on all the data:
   carried mean cache = A'^-1 r', carried inverse = A'^-1, posterior = C01 posterior (test
   blocks from any joint prior KJt/muJt that has the same train mean rows) *)
Theorem c04_fantasy_iterated :
  forall (K : Fld) inv KJ S muJ y n0 ms t st0 N Ainv alpha Ainv' KJt muJt,
    oracle_sound inv ->
    fantasy_init inv KJ S (resid muJ y) n0 = Some st0 ->
    fantasy_fold inv KJ S (resid muJ y) st0 ms = Some (N, Ainv, alpha) ->
    is_inverse (n0 + list_sum ms) (train_covar KJ S) Ainv' ->
    meq (n0 + list_sum ms) 1 muJt muJ ->
    N = (n0 + list_sum ms)%nat
    /\ meq N 1 alpha (mean_cache N muJ Ainv' y)
    /\ meq N N Ainv Ainv'
    /\ meq t 1 (post_mean_from_cache N KJt muJt alpha) (post_mean N KJt muJt Ainv' y)
    /\ meq t t (post_cov N KJt Ainv) (post_cov N KJt Ainv').
Proof. intros K. exact (@fantasy_iterated K). Qed.
Print Assumptions c04_fantasy_iterated.

(* the per-update states printed by the executable wrapper are the folds on the prefixes *)
Theorem c04_fantasy_trace_fold :
  forall (K : Fld) inv KJ S r ms st k, (k < length ms)%nat ->
    nth k (fantasy_trace inv KJ S r st ms) None = fantasy_fold inv KJ S r st (firstn (Datatypes.S k) ms)
    \/ (exists j, (j < k)%nat /\ fantasy_fold inv KJ S r st (firstn (Datatypes.S j) ms) = None).
Proof. intros K. exact (@fantasy_trace_fold K). Qed.
Print Assumptions c04_fantasy_trace_fold.

(* the executable model's oracle (certificate-checked Gauss-Jordan) is sound *)
Theorem c04_inv_oracle_sound : oracle_sound inv_oracle.
Proof. exact inv_oracle_sound. Qed.
Print Assumptions c04_inv_oracle_sound.

(* source frame: get_fantasy_model leaves strategy, data, likelihood and parameters of the
   object it is called on as they were, whatever the update functions compute *)
Theorem c04_source_frame :
  forall (T : Type) upd newlik (src : gp_obj T) fin ftg full_in full_tg,
    let src' := fst (get_fantasy_model_obj upd newlik src fin ftg full_in full_tg) in
    o_strategy src' = o_strategy src /\ o_inputs src' = o_inputs src /\
    o_targets src' = o_targets src /\ o_lik src' = o_lik src /\ o_params src' = o_params src.
Proof. exact (@source_frame). Qed.
Print Assumptions c04_source_frame.

(* ---- multitask fantasies (Models/C04_mtshape.v).  Rows are (point, task), interleaved: the m fantasy points
   occupy the contiguous rows nT .. (n+m)T-1, so the theorems above apply with n := nT, m := mT *)
Theorem c04_multitask_rows_contiguous :
  forall T n j a, mt_row T (n + j)%nat a = (n * T + mt_row T j a)%nat.
Proof. exact mt_rows_contiguous. Qed.
Print Assumptions c04_multitask_rows_contiguous.
Theorem c04_multitask_row_injective :
  forall T i a i' a', (a < T)%nat -> (a' < T)%nat -> mt_row T i a = mt_row T i' a' -> i = i' /\ a = a'.
Proof. exact mt_row_inj. Qed.
Print Assumptions c04_multitask_row_injective.
(* full statement wanted by the property: for every batch shape B, m and T the right-hand side of the small system
   `targets - fant_mean - ftcm` is the B x mT vector of the bordered system.  The code's broadcasting refutes it
   (recorded finding C04-multitask-fantasy-shapes; replayed on /repo by the driver's multitask histories): *)
Theorem c04_multitask_rhs_shape_refuted :
  exists B m T, mt_rhs_shape_code B m T <> Some (mt_rhs_shape_spec B m T).
Proof. exact mt_rhs_shape_refuted. Qed.
Print Assumptions c04_multitask_rhs_shape_refuted.
(* ... it raises for EVERY m >= 2, T >= 2 (no batch), and for a single point it yields a spurious leading
   dimension (the 1 x (n+1)T carried mean cache the driver observes) *)
Theorem c04_multitask_rhs_shape_raises :
  forall m T, (2 <= m)%nat -> (2 <= T)%nat -> mt_rhs_shape_code [] m T = None.
Proof. exact mt_rhs_shape_raises. Qed.
Print Assumptions c04_multitask_rhs_shape_raises.
Theorem c04_multitask_rhs_shape_single_point_partial :
  forall T, mt_rhs_shape_code [] 1%nat T = Some [1%nat; T].
Proof. exact mt_rhs_shape_single_point. Qed.
Print Assumptions c04_multitask_rhs_shape_single_point_partial.
(* the proposed patch (flatten both operands first) gives the specified shape for all B, m, T *)
Theorem c04_multitask_rhs_shape_fixed :
  forall B m T, mt_rhs_shape_fixed B m T = Some (mt_rhs_shape_spec B m T).
Proof. exact mt_rhs_shape_fixed_ok. Qed.
Print Assumptions c04_multitask_rhs_shape_fixed.

(* ---- KISS-GP / WISKI fantasy update (Models/C04_wiski.v): the posterior computed from the updated
   interpolation-space caches equals the C01 posterior of the SKI kernel W K_uu W^T on the concatenated data.
   Step 1 (cache additivity): the two caches the fantasy strategy carries are, after the additive update, exactly the
   caches W'^T D'^-1 W', W'^T D'^-1 r' of the concatenated data W' = [W; W_f], D'^-1 = blkdiag(D^-1, D_f^-1), r' = [r; r_f]
   (all n, m, grid sizes g, any noise inverses). *)
Theorem c04_wiski_inner_update :
  forall (K : Fld) g n m W Wf Dinv Dfinv,
    meq g g (wiski_inner (n + m) (vstack n W Wf) (blkdiag n Dinv Dfinv))
            (wiski_inner_update m (wiski_inner n W Dinv) Wf Dfinv).
Proof. intros K. exact (@wiski_inner_update_correct K). Qed.
Print Assumptions c04_wiski_inner_update.
Theorem c04_wiski_resp_update :
  forall (K : Fld) g n m W Wf Dinv Dfinv r rf,
    meq g 1 (wiski_resp (n + m) (vstack n W Wf) (blkdiag n Dinv Dfinv) (vstack n r rf))
            (wiski_resp_update m (wiski_resp n W Dinv r) Wf Dfinv rf).
Proof. intros K. exact (@wiski_resp_update_correct K). Qed.
Print Assumptions c04_wiski_resp_update.
(* Step 2 (caches -> posterior; Proofs/C04_wiski_post.v on top of the Woodbury / push-through lemmas of C09).  With
     P' = interp_inner_prod + W_f^T D_f^-1 W_f,   c' = interp_response_cache + W_f^T D_f^-1 (y_f - m_f)
   exactly as the code updates them, ANY root L (g x q, any q) of P' (the code: jittered Cholesky / low-rank root),
   Qi = (I + L^T Kuu L)^-1, the prediction
       mean = Ws (Kuu c' - (Kuu L) Qi (L^T Kuu c')) + m_*        cov = K_** - Ws (Kuu L) Qi (Kuu L)^T Ws^T
   is the C01 posterior (post_mean / post_cov on the assembled joint matrix, Ainv ANY inverse of the train covariance
   W' Kuu W'^T + blkdiag(D, D_f) of the n + m concatenated rows).  All n, m, g, q, t; the only invertibility assumed is
   that of the matrices the code itself solves with (D, D_f, I + L^T Kuu L) and of the train covariance. *)
Theorem c04_wiski_fantasy_mean_is_c01_posterior :
  forall (K : Fld) n m g q Kuu W Wf D Dinv Df Dfinv L Qi Ainv,
    is_inverse n D Dinv -> is_inverse m Df Dfinv ->
    meq g g (mmul q L (mT L)) (wiski_inner_update m (wiski_inner n W Dinv) Wf Dfinv) ->
    is_inverse q (madd mI (mmul g (mT L) (mmul g Kuu L))) Qi ->
    is_inverse (n + m) (madd (ski g (vstack n W Wf) Kuu (vstack n W Wf)) (blkdiag n D Df)) Ainv ->
    forall t mx mxf y yf ms Ws Tss,
    let c' := wiski_resp_update m (wiski_resp n W Dinv (msub y mx)) Wf Dfinv (msub yf mxf) in
    let Csx := ski g Ws Kuu (vstack n W Wf) in
    meq t 1 (madd (mmul g Ws (wiski_fantasy_mean_cache g q Kuu L Qi c')) ms)
            (post_mean (n + m)
               (blk (n + m) (n + m) (ski g (vstack n W Wf) Kuu (vstack n W Wf)) (mT Csx) Csx Tss)
               (vstack (n + m) (vstack n mx mxf) ms) Ainv (vstack n y yf)).
Proof. intros K. exact (@wiski_fantasy_mean_is_c01_posterior K). Qed.
Print Assumptions c04_wiski_fantasy_mean_is_c01_posterior.
Theorem c04_wiski_fantasy_cov_is_c01_posterior :
  forall (K : Fld) n m g q Kuu W Wf D Dinv Df Dfinv L Qi Ainv,
    is_inverse n D Dinv -> is_inverse m Df Dfinv ->
    meq g g (mmul q L (mT L)) (wiski_inner_update m (wiski_inner n W Dinv) Wf Dfinv) ->
    is_inverse q (madd mI (mmul g (mT L) (mmul g Kuu L))) Qi ->
    is_inverse (n + m) (madd (ski g (vstack n W Wf) Kuu (vstack n W Wf)) (blkdiag n D Df)) Ainv ->
    forall t Ws Tss, symmetric g Kuu ->
    let Csx := ski g Ws Kuu (vstack n W Wf) in
    meq t t (wiski_pred_cov g q Kuu L Qi t Tss Ws)
            (post_cov (n + m)
               (blk (n + m) (n + m) (ski g (vstack n W Wf) Kuu (vstack n W Wf)) (mT Csx) Csx Tss) Ainv).
Proof. intros K. exact (@wiski_fantasy_cov_is_c01_posterior K). Qed.
Print Assumptions c04_wiski_fantasy_cov_is_c01_posterior.
(* the cached vector itself: fantasy_mean_cache from the updated caches = the KISS-GP mean cache
   Kuu W'^T (W' Kuu W'^T + D')^-1 r' of the concatenated data *)
Theorem c04_wiski_fantasy_mean_cache_is_kiss_mean_cache :
  forall (K : Fld) n m g q Kuu W Wf D Dinv Df Dfinv L Qi Ainv,
    is_inverse n D Dinv -> is_inverse m Df Dfinv ->
    meq g g (mmul q L (mT L)) (wiski_inner_update m (wiski_inner n W Dinv) Wf Dfinv) ->
    is_inverse q (madd mI (mmul g (mT L) (mmul g Kuu L))) Qi ->
    is_inverse (n + m) (madd (ski g (vstack n W Wf) Kuu (vstack n W Wf)) (blkdiag n D Df)) Ainv ->
    forall r rf,
    meq g 1 (wiski_fantasy_mean_cache g q Kuu L Qi (wiski_resp_update m (wiski_resp n W Dinv r) Wf Dfinv rf))
            (interp_mean_cache (n + m) g Kuu (vstack n W Wf) Ainv (vstack n r rf)).
Proof. intros K. exact (@wiski_fantasy_mean_cache_is_kiss K). Qed.
Print Assumptions c04_wiski_fantasy_mean_cache_is_kiss_mean_cache.
(* the g x g system I + Kuu P' behind both formulas is invertible as soon as Qi exists (explicit inverse
   I - (Kuu L) Qi L^T): no extra hypothesis above *)
Theorem c04_wiski_fantasy_system_invertible :
  forall (K : Fld) n m g q Kuu W Wf Dinv Dfinv L Qi,
    meq g g (mmul q L (mT L)) (wiski_inner_update m (wiski_inner n W Dinv) Wf Dfinv) ->
    is_inverse q (madd mI (mmul g (mT L) (mmul g Kuu L))) Qi ->
    is_inverse g (madd mI (mmul g Kuu (wiski_inner_update m (wiski_inner n W Dinv) Wf Dfinv)))
               (wiski_Bi g q Kuu L Qi).
Proof. intros K. exact (@wiski_fantasy_system_invertible K). Qed.
Print Assumptions c04_wiski_fantasy_system_invertible.
(* blkdiag of the two noise inverses is the inverse of the noise of the concatenated data *)
Theorem c04_blkdiag_inverse :
  forall (K : Fld) n m D Dinv Df Dfinv,
    is_inverse n D Dinv -> is_inverse m Df Dfinv ->
    is_inverse (n + m) (blkdiag n D Df) (blkdiag n Dinv Dfinv).
Proof. intros K. exact (@blkdiag_inverse K). Qed.
Print Assumptions c04_blkdiag_inverse.

(* ---- non-vacuity: the hypotheses are met by concrete instances -------------------------- *)

(* a 1+1+1 world: two successive single-point fantasies succeed in the executable model *)
Example ex_c04_fold_succeeds :
  let KJ := of_list [[qc 2 1; qc 1 1; qc 1 2; qc 1 4]; [qc 1 1; qc 2 1; qc 1 1; qc 1 2];
                     [qc 1 2; qc 1 1; qc 2 1; qc 1 1]; [qc 1 4; qc 1 2; qc 1 1; qc 2 1]] in
  let S := of_list [[qc 1 2; 0%Qc; 0%Qc]; [0%Qc; qc 1 4; 0%Qc]; [0%Qc; 0%Qc; qc 1 2]] in
  let r := resid (vec_of_list [qc 1 1; qc 1 1; qc 1 1; qc 1 1]) (vec_of_list [qc 2 1; qc 0 1; qc 3 1]) in
  exists st0 st, fantasy_init inv_oracle KJ S r 1 = Some st0
              /\ fantasy_fold inv_oracle KJ S r st0 [1%nat; 1%nat] = Some st
              /\ fst (fst st) = 3%nat.
Proof. cbv zeta. eexists. eexists. split; [vm_compute; reflexivity|]. split; vm_compute; reflexivity. Qed.

(* a root pair and a Schur root over Qc: A = [4], E = [2], R = [1/2], U = [2], S_f = [5] *)
Example ex_c04_root_pair :
  let A := of_list [[qc 4 1]] in let E := of_list [[qc 2 1]] in let R := of_list [[qc 1 2]] in
  let U := of_list [[qc 2 1]] in let Sf := of_list [[qc 5 1]] in
  let G := of_list [[qc 2 1]] in let Ginv := of_list [[qc 1 2]] in
  root_inv_pair 1 A E R
  /\ meq 1 1 (mmul 1 G (mT G)) (root_schur 1 Sf (root_lower_left 1 U R))
  /\ is_inverse 1 G Ginv.
Proof.
  cbv zeta. repeat split; apply meqb_sound; vm_compute; reflexivity.
Qed.

(* the hypotheses of the WISKI posterior theorems are jointly satisfiable: n = 1 old point, m = 1 fantasy point, g = 2
   grid nodes, W = [1/2 1/2], W_f = [0 1], D = [1/4], D_f = [1/9], P' = [[1,1],[1,10]] = L L^T with L = [[1,0],[1,3]] *)
Example ex_c04_wiski_post_hypotheses :
  is_inverse 1 wpD wpDinv /\ is_inverse 1 wpDf wpDfinv
  /\ meq 2 2 (mmul 2 wpL (mT wpL)) (wiski_inner_update 1 (wiski_inner 1 wpW wpDinv) wpWf wpDfinv)
  /\ is_inverse 2 (madd mI (mmul 2 (mT wpL) (mmul 2 wpKuu wpL))) wpQi
  /\ is_inverse 2 (madd (ski 2 (vstack 1 wpW wpWf) wpKuu (vstack 1 wpW wpWf)) (blkdiag 1 wpD wpDf)) wpAinv
  /\ symmetric 2 wpKuu.
Proof. exact ex_wiski_post_hyps. Qed.

(* ---- the EXECUTED fantasy update is the REAL-NUMBER fantasy update (Base/Morph.v, Proofs/C04_morph.v) ----
   After the source solve and ANY number of fantasy updates of ANY sizes, executed on exact rationals with the
   certificate-checked oracle (what run_fantasy runs and the driver compares with the implementation), the carried
   state (A^-1, mean cache), read as reals through the field morphism Q2R', is the state of the real-number problem:
   mapR Ainv inverts the real train covariance of all N rows, mapR alpha is the real mean cache, and the predictions
   the wrapper prints from that state are the real-number C01 posterior of the real-number concatenated data, for ANY
   real inverse AinvR (test blocks from any joint prior KJt / muJt with the same train mean rows).  All n0, ms, t. *)
From GPV Require Import Base.Morph Proofs.C01_morph Proofs.C04_morph.

Theorem c04_executed_fantasy_is_real_fantasy :
  forall (KJ S muJ y : @M QcF) n0 ms t st0 N Ainv alpha,
    fantasy_init inv_oracle KJ S (@resid QcF muJ y) n0 = Some st0 ->
    fantasy_fold inv_oracle KJ S (@resid QcF muJ y) st0 ms = Some (N, Ainv, alpha) ->
    N = (n0 + list_sum ms)%nat /\
    is_inverse N (@train_covar RF (mapR KJ) (mapR S)) (mapR Ainv) /\
    forall (AinvR : @M RF), is_inverse N (@train_covar RF (mapR KJ) (mapR S)) AinvR ->
      meq N 1 (mapR alpha) (@mean_cache RF N (mapR muJ) AinvR (mapR y)) /\
      meq N N (mapR Ainv) AinvR /\
      forall (KJt muJt : @M QcF), meq N 1 muJt muJ ->
        meq t 1 (mapR (@post_mean_from_cache QcF N KJt muJt alpha))
                (@post_mean RF N (mapR KJt) (mapR muJt) AinvR (mapR y)) /\
        meq t t (mapR (@post_cov_staged QcF N t KJt Ainv)) (@post_cov RF N (mapR KJt) AinvR).
Proof. exact executed_fantasy_is_real_fantasy. Qed.
Print Assumptions c04_executed_fantasy_is_real_fantasy.

(* the one-update formulas commute entrywise with ANY field morphism (generic, no axioms) *)
Theorem c04_fantasy_update_commutes_with_field_morphisms :
  forall (K1 K2 : Fld) (phi : @car K1 -> @car K2), FldMorph K1 K2 phi ->
    forall n m (Ainv U Ut Sf Q Cinv alpha rf : @M K1) i j,
      phi (@schur K1 n U Q Sf i j) = @schur K2 n (mmap phi U) (mmap phi Q) (mmap phi Sf) i j /\
      phi (@fant_mean_cache K1 n m U Q Cinv alpha rf i j)
        = @fant_mean_cache K2 n m (mmap phi U) (mmap phi Q) (mmap phi Cinv) (mmap phi alpha) (mmap phi rf) i j /\
      phi (@bordered_inv K1 n m Ainv U Ut Cinv i j)
        = @bordered_inv K2 n m (mmap phi Ainv) (mmap phi U) (mmap phi Ut) (mmap phi Cinv) i j.
Proof. exact fantasy_update_commutes_with_field_morphisms. Qed.
Print Assumptions c04_fantasy_update_commutes_with_field_morphisms.

Example ex_c04_executed_fantasy_hypotheses :
  exists st0 st, fantasy_init inv_oracle exf_KJ exf_S (@resid QcF exf_mu exf_y) 1 = Some st0 /\
    fantasy_fold inv_oracle exf_KJ exf_S (@resid QcF exf_mu exf_y) st0 [1%nat] = Some st /\ fst (fst st) = 2%nat.
Proof. exact ex_executed_fantasy_hyp. Qed.
Print Assumptions ex_c04_executed_fantasy_hypotheses.
