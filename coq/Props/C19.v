(* C19 — hand-written derivatives are the true derivatives.
   Statement file: theorems, [exact lemma], Print Assumptions.  Nothing else.
   [TR] = the model instantiated on Coq reals; the same definitions run on [TE] (expr). *)
From Coq Require Import Arith List Reals.
From Coquelicot Require Import Coquelicot.
From GPV Require Import Base.LinAlg Base.Exec Base.Expr Base.Gaussian Models.C05_kernels Models.C19_derivs
  Proofs.C19_derivs Proofs.C19_phi Proofs.C19_inputs.

(* RBFCovariance: the term saved in forward (s k / l, s = D2 / l^2) is d/dl of the forward
   value exp(-s/2), for every squared distance D2 (coincident points D2 = 0 included) *)
Theorem c19_rbf_backward_is_derivative :
  forall (D2 l : R), l <> 0%R ->
    is_derive (fun l' => @rbf_of_l TR D2 l') l (@rbf_bwd_of_l TR D2 l).
Proof. exact rbf_backward_is_derivative. Qed.
Print Assumptions c19_rbf_backward_is_derivative.

(* MaternCovariance, nu = 1/2 (nu2 = 1), 3/2 (nu2 = 3), 5/2 (any other tag), every distance D
   (D = 0 included), every constant c = sqrt(2 nu) *)
Theorem c19_matern_backward_is_derivative :
  forall nu2 (c D l : R), l <> 0%R ->
    is_derive (fun l' => @mat_of_l TR nu2 c D l') l (@mat_bwd_of_l TR nu2 c D l).
Proof. exact matern_backward_is_derivative. Qed.
Print Assumptions c19_matern_backward_is_derivative.

(* at coincident points the saved backward terms are exactly 0 (no 0/0, no NaN in exact arithmetic) *)
Theorem c19_rbf_backward_coincident : forall l : R, @rbf_bwd_of_l TR 0%R l = 0%R.
Proof. exact rbf_backward_coincident. Qed.
Print Assumptions c19_rbf_backward_coincident.
Theorem c19_matern_backward_coincident : forall nu2 (c l : R), @mat_bwd_of_l TR nu2 c 0%R l = 0%R.
Proof. exact matern_backward_coincident. Qed.
Print Assumptions c19_matern_backward_coincident.

(* gradients with respect to the INPUTS (generic code paths; diag = True branch of covar_dist: distance = square root
   of the summed squared differences; C >= 0 = contribution of the other coordinates).  Where the distance is positive
   the input derivative is determined by the lengthscale derivative (chain rule), every nu, every coordinate value: *)
Theorem c19_matern_input_gradient_chain :
  forall nu2 (c C b l a : R), l <> 0%R -> (0 < C + (a - b) * (a - b))%R ->
    is_derive (fun t => @mat_of_l TR nu2 c (sqrt (C + (t - b) * (t - b))) l) a
      (- @mat_bwd_of_l TR nu2 c (sqrt (C + (a - b) * (a - b))) l * l * (a - b)
         / (sqrt (C + (a - b) * (a - b)) * sqrt (C + (a - b) * (a - b))))%R.
Proof. exact matern_input_chain. Qed.
Print Assumptions c19_matern_input_gradient_chain.
Theorem c19_rbf_input_gradient_chain :
  forall (C b l a : R), l <> 0%R -> (0 < C + (a - b) * (a - b))%R ->
    is_derive (fun t => @rbf_of_l TR (C + (t - b) * (t - b)) l) a
      (- @rbf_bwd_of_l TR (C + (a - b) * (a - b)) l * l * (a - b) / (C + (a - b) * (a - b)))%R.
Proof. exact rbf_input_chain. Qed.
Print Assumptions c19_rbf_input_gradient_chain.
(* at a COINCIDENT pair (distance 0) Matern-3/2 and Matern-5/2 are differentiable in the inputs with derivative 0,
   although sqrt is not differentiable at 0: a finite input gradient exists there (0 * inf = NaN is not it) *)
Theorem c19_matern32_input_gradient_coincident :
  forall (c l b : R), (0 <= c)%R -> (0 < l)%R ->
    is_derive (fun t => @mat_of_l TR 3 c (sqrt (0 + (t - b) * (t - b))) l) b 0%R.
Proof. exact matern32_input_coincident. Qed.
Print Assumptions c19_matern32_input_gradient_coincident.
Theorem c19_matern52_input_gradient_coincident :
  forall (c l b : R), (0 <= c)%R -> (0 < l)%R ->
    is_derive (fun t => @mat_of_l TR 5 c (sqrt (0 + (t - b) * (t - b))) l) b 0%R.
Proof. exact matern52_input_coincident. Qed.
Print Assumptions c19_matern52_input_gradient_coincident.
Example ex_c19_input_chain_hypothesis : (0 < 3 + (1 - 0) * (1 - 0))%R.
Proof. exact ex_chain_hyp. Qed.

(* LogNormalCDF.backward, main branch (z >= -1; the tail branch is a rational approximation and is
   tested only).  Algebraic form: given log_phi_z = ln P for ANY P > 0 the returned expression is phi(z) / P *)
Theorem c19_lncdf_backward_formula :
  forall z P : R, (0 < P)%R -> lncdf_bwd_R z (ln P) = (std_normal_pdf z / P)%R.
Proof. exact lncdf_backward_identity. Qed.
Print Assumptions c19_lncdf_backward_formula.

(* Phi(z) = 1/2 + int_0^z phi is strictly between 0 and 1 on the whole line (sharp Gaussian-integral
   bound (int_0^x e^(-t^2/2) dt)^2 < pi/2, proved by differentiating under the integral sign) *)
Theorem c19_std_normal_cdf_pos : forall z : R, (0 < std_normal_cdf z)%R.
Proof. exact std_normal_cdf_pos. Qed.
Print Assumptions c19_std_normal_cdf_pos.

(* ... hence, with the forward value log Phi(z) saved, the value returned by backward IS the derivative of
   the forward function log Phi at z, for every real z, with no side condition *)
Theorem c19_lncdf_backward_is_derivative :
  forall z : R,
    is_derive (fun x => ln (std_normal_cdf x)) z (lncdf_bwd_R z (ln (std_normal_cdf z))).
Proof. exact lncdf_backward_is_derivative. Qed.
Print Assumptions c19_lncdf_backward_is_derivative.
Theorem c19_lncdf_backward_value :
  forall z : R, lncdf_bwd_R z (ln (std_normal_cdf z)) = (std_normal_pdf z / std_normal_cdf z)%R.
Proof. exact lncdf_backward_value. Qed.
Print Assumptions c19_lncdf_backward_value.

(* ... as a vector-Jacobian product: for EVERY upstream gradient g, of either sign, the value returned on that branch is
   g * phi(z) / P, it is the derivative of g * log Phi, and negating the upstream gradient negates it (no absolute
   value anywhere) *)
Theorem c19_lncdf_vjp_formula :
  forall g z P : R, (0 < P)%R -> lncdf_vjp_R g z (ln P) = (g * (std_normal_pdf z / P))%R.
Proof. exact lncdf_vjp_identity. Qed.
Print Assumptions c19_lncdf_vjp_formula.
Theorem c19_lncdf_vjp_is_derivative :
  forall g z : R,
    is_derive (fun x => (g * ln (std_normal_cdf x))%R) z (lncdf_vjp_R g z (ln (std_normal_cdf z))).
Proof. exact lncdf_vjp_is_derivative. Qed.
Print Assumptions c19_lncdf_vjp_is_derivative.
Theorem c19_lncdf_vjp_odd_in_upstream :
  forall g z lp : R, lncdf_vjp_R (- g) z lp = (- lncdf_vjp_R g z lp)%R.
Proof. exact lncdf_vjp_neg. Qed.
Print Assumptions c19_lncdf_vjp_odd_in_upstream.

(* _NgdInterpTerms.backward (CIQ natural-gradient terms) for one inducing value and one data point: the returned
   triple is the gradient of  gm * mean + gv * variance + gk * KL(q(u) || p(u))  with respect to the interpolation term
   k and to the EXPECTATION parameters (eta1, eta2) = (m, m^2 + S) (the natural gradient), for every upstream
   (gm, gv, gk), wherever S = eta2 - eta1^2 > 0.  Partial: M > 1 inducing values / several data points are tested
   against torch autograd of a dense closed form. *)
Theorem c19_ciq_ngd_backward_eta1_partial :
  forall gm gv gk k e1 e2 : R, (0 < e2 - e1 * e1)%R ->
    is_derive (fun e1' => ciq1_obj_R gm gv gk k e1' e2) e1
              (@ciq1_bwd_eta1 TR gm gv gk k (k * e1)%R (e1 / (e2 - e1 * e1))%R).
Proof. exact ciq1_backward_eta1. Qed.
Print Assumptions c19_ciq_ngd_backward_eta1_partial.
Theorem c19_ciq_ngd_backward_eta2_partial :
  forall gm gv gk k e1 e2 : R, (0 < e2 - e1 * e1)%R ->
    is_derive (fun e2' => ciq1_obj_R gm gv gk k e1 e2') e2
              (@ciq1_bwd_eta2 TR gv gk k (1 / (e2 - e1 * e1))%R).
Proof. exact ciq1_backward_eta2. Qed.
Print Assumptions c19_ciq_ngd_backward_eta2_partial.
Theorem c19_ciq_ngd_backward_interp_partial :
  forall gm gv gk k e1 e2 : R,
    is_derive (fun k' => ciq1_obj_R gm gv gk k' e1 e2) k
              (@ciq1_bwd_k TR gm gv ((e2 - e1 * e1) * k)%R e1).
Proof. exact ciq1_backward_k. Qed.
Print Assumptions c19_ciq_ngd_backward_interp_partial.
(* the forward pass saves exactly the quantities those statements are instantiated with *)
Theorem c19_ciq_ngd_forward_consistent_partial :
  forall k th1 th2 : R, (th2 < 0)%R ->
    let S := (1 / (- (1 + 1) * th2))%R in let m := @ciq1_m TR th1 th2 in
    (0 < (m * m + S) - m * m)%R /\ @ciq1_mean TR k th1 th2 = (k * m)%R /\ th1 = (m / ((m * m + S) - m * m))%R
    /\ @ciq1_prec TR th2 = (1 / ((m * m + S) - m * m))%R /\ @ciq1_sk TR k th2 = (((m * m + S) - m * m) * k)%R
    /\ @ciq1_var TR k th2 = (k * k * ((m * m + S) - m * m))%R.
Proof. exact ciq1_forward_consistent. Qed.
Print Assumptions c19_ciq_ngd_forward_consistent_partial.

(* _NaturalToMuVarSqrt.backward for one inducing value (and coordinate-wise for diagonal natural
   matrices): the returned pair is the gradient with respect to the EXPECTATION parameters
   (eta1, eta2) = (mu, mu^2 + L^2), i.e. the natural gradient, for every upstream (gmu, gL).
   Partial: general n needs the differential of the Cholesky factor (tested only). *)
Theorem c19_natural_backward_eta2_partial :
  forall gmu gL e1 e2 : R, (0 < e2 - e1 * e1)%R ->
    is_derive (fun e2' => (gmu * e1 + gL * @eta_to_L TR e1 e2')%R) e2
              (@nat1_bwd_eta2 TR gL (@eta_to_L TR e1 e2)).
Proof. exact nat1_backward_eta2. Qed.
Print Assumptions c19_natural_backward_eta2_partial.
Theorem c19_natural_backward_eta1_partial :
  forall gmu gL e1 e2 : R, (0 < e2 - e1 * e1)%R ->
    is_derive (fun e1' => (gmu * e1' + gL * @eta_to_L TR e1' e2)%R) e1
              (@nat1_bwd_eta1 TR gmu gL e1 (@eta_to_L TR e1 e2)).
Proof. exact nat1_backward_eta1. Qed.
Print Assumptions c19_natural_backward_eta1_partial.
(* the forward pass lands on such a point: L > 0 and (mu, mu^2 + L^2) maps back to L *)
Theorem c19_natural_forward_consistent_partial :
  forall th1 th2 : R, (th2 < 0)%R ->
    let mu := @nat1_fwd_mu TR th1 th2 in let L := @nat1_fwd_L TR th2 in
    (0 < L)%R /\ @eta_to_L TR mu (mu * mu + L * L)%R = L.
Proof. exact nat1_forward_consistent. Qed.
Print Assumptions c19_natural_forward_consistent_partial.

(* the expr terms the harness evaluates denote the real-valued formulas above *)
Theorem c19_den_rbf_backward :
  forall D2 l : expr, den (@rbf_bwd_of_l TE D2 l) = @rbf_bwd_of_l TR (den D2) (den l).
Proof. exact den_rbf_bwd_of_l. Qed.
Print Assumptions c19_den_rbf_backward.
Theorem c19_den_lncdf_grad :
  forall z : expr, den (lncdf_grad_expr z) = (std_normal_pdf (den z) / std_normal_cdf (den z))%R.
Proof. exact den_lncdf_grad. Qed.
Print Assumptions c19_den_lncdf_grad.

(* the two terms the harness evaluates for LogNormalCDF (value, gradient) are a function and its derivative *)
Theorem c19_lncdf_exprs_are_value_and_derivative :
  forall z : expr,
    den (lncdf_value_expr z) = ln (std_normal_cdf (den z)) /\
    is_derive (fun t => ln (std_normal_cdf t)) (den z) (den (lncdf_grad_expr z)).
Proof. exact lncdf_exprs_are_value_and_derivative. Qed.
Print Assumptions c19_lncdf_exprs_are_value_and_derivative.

(* non-vacuity: a concrete point satisfying the hypotheses of the natural-parameter theorems *)
Example ex_c19_natural_point : (0 < 2 - 1 * 1)%R.
Proof. exact ex_natural_point. Qed.

(* non-vacuity of the Phi bounds at a point of the left tail *)
Example ex_c19_lncdf_point : (0 < std_normal_cdf (-3) < 1)%R.
Proof. exact ex_lncdf_point. Qed.
