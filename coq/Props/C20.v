(* C20 — global settings are scoped.  Statement file: theorems, [exact lemma], Print Assumptions.
   Everything is about the class table REGENERATED from the current sources of gpytorch/settings.py,
   gpytorch/beta_features.py and the installed linear_operator/settings.py (Gen/Settings_gen.v);
   Proofs/C20_gen.v re-computes the per-class obligation on that table on every run, so this file
   stops compiling when a source change breaks the save/restore discipline of a gpytorch class.

   Vocabulary (Models/C20_ir.v, Models/C20_check.v):
     run T p G = (G', o, tr)   Python semantics of a program of with-blocks (constructor, __enter__,
                               body, __exit__ on normal AND exceptional exit, exception re-raised; NO
                               __exit__ when the header -- constructor or __enter__ -- raises), of
                               `try: .. except Exception: pass` (PTry) and of blocks that change the
                               warning filter (PEsc) from global store G; o is ONormal / ORaised /
                               OStuck; tr lists the stores at the PObserve points.
     warnings                  `warnings.warn(..)` in a class body is a potential raise point (SWarn):
                               the store slot WARN.site says whether the filter in force turns the
                               warning issued at that statement into an exception.  All theorems
                               quantify over every store, hence over every filter state, also one
                               that changes while the body runs.
     enters T c args G         the header of `with c(args):` completes at store G.
     lookup_v T G c a          what the class attribute c.a evaluates to (base-chain lookup) -- the
                               only thing on()/off()/value()/num_probe_vectors() read.
     observe T G c m args      what the public query c.m(args) returns at store G.
     checked                   every usable context manager of the table except the installed
                               linear_operator.settings.cholesky_jitter (known finding).
     doc_caches                the one slot documented as a cache that is dropped, not restored
                               (deterministic_probes.probe_vectors; it has no query method).
     footprint comp p          the classes of the with-blocks of p and their documented composites. *)
From Coq Require Import List String ZArith Bool.
From GPV Require Import Models.C20_ir Models.C20_check Models.C20_run Gen.Settings_gen
                        Proofs.C20_scoped Proofs.C20_inner Proofs.C20_gen.
Import ListNotations.
Open Scope string_scope.

(* SCOPED: for EVERY program (any nesting depth, any length, any argument values, any mixture of
   classes, exceptions raised anywhere), from EVERY store: the program does not get stuck, and after
   it -- whether it ended normally or by an exception -- every class attribute reads as before. *)
Theorem c20_scoped :
  forall (p : prog) (G G' : store) (o : outcome) (tr : list store),
    (forall c, In c (prog_classes p) -> In c checked) ->
    run gen_table p G = (G', o, tr) ->
    o <> OStuck /\
    (forall c a, doc_caches c a = false -> lookup_v gen_table G' c a = lookup_v gen_table G c a).
Proof.
  intros p G G' o tr Hc Hr. destruct (scoped_gen p G G' o tr Hc Hr) as [H1 [H2 _]]. exact (conj H1 H2).
Qed.
Print Assumptions c20_scoped.

(* FRAME: at every observation point inside the program, every class that is neither the class of
   one of its with-blocks nor a documented composite of one shows the outer value. *)
Theorem c20_frame :
  forall (p : prog) (G G' : store) (o : outcome) (tr : list store),
    (forall c, In c (prog_classes p) -> In c checked) ->
    run gen_table p G = (G', o, tr) ->
    forall s, In s tr -> forall c a, ~ In c (footprint doc_composites p) -> doc_caches c a = false ->
      lookup_v gen_table s c a = lookup_v gen_table G c a.
Proof.
  intros p G G' o tr Hc Hr. destruct (scoped_gen p G G' o tr Hc Hr) as [_ [_ H3]]. exact H3.
Qed.
Print Assumptions c20_frame.

(* SCOPED, at the level of the public queries: for every program over the checked classes other than
   deterministic_probes (whose probe-vector cache is dropped by design), EVERY query -- any class, any
   method, any arguments: on(), off(), value(dtype), num_probe_vectors(), is_default() ... -- returns
   after the program, normal or exceptional exit, exactly what it returned before. *)
Theorem c20_scoped_queries :
  forall (p : prog) (G G' : store) (o : outcome) (tr : list store),
    (forall c, In c (prog_classes p) -> In c checked0) ->
    run gen_table p G = (G', o, tr) ->
    forall c m args, observe gen_table G' c m args = observe gen_table G c m args.
Proof. exact queries_scoped_gen. Qed.
Print Assumptions c20_scoped_queries.

Theorem c20_checked0_is_checked_minus_probes :
  forall c, In c checked0 <-> (In c checked /\ c <> "lo.deterministic_probes").
Proof.
  intros c. split.
  - intros H. split; [exact (checked0_checked c H)|]. intros E. subst c.
    unfold checked0 in H. apply filter_In in H. destruct H as [_ H]. discriminate H.
  - intros [H1 H2]. exact (checked_checked0 c H1 H2).
Qed.
Print Assumptions c20_checked0_is_checked_minus_probes.

(* INNERMOST WINS -- partial.  Proved (all blocks, arguments, bodies, stores): whatever a block shows at
   the start of its body (s0) is what every later observation in its body shows, for every class that
   has no inner block in the body; inner blocks put it back when they end (c20_scoped applied to them).
   So at every point the visible value of a class is the one established by the innermost enclosing
   block of that class (or a composite of it).
   NOT proved: that s0 shows "what the arguments request" (state=..., value=..., per-dtype values that are
   not None, num_probe_vectors=..., the composites' members).  That half needs a specification of every
   constructor's arguments; it is TESTED on every run by the driver (real classes vs the reference
   semantics, and vs this model). *)
Theorem c20_innermost_wins_partial :
  forall c args body G G' o tr,
    (forall k, In k (prog_classes body) -> In k checked) ->
    run gen_table (PWith c args (PSeq PObserve body)) G = (G', o, tr) ->
    tr = [] \/ exists s0 tr', tr = s0 :: tr' /\
      forall s, In s tr' -> forall k a, ~ In k (footprint doc_composites body) -> doc_caches k a = false ->
        lookup_v gen_table s k a = lookup_v gen_table s0 k a.
Proof. exact innermost_gen. Qed.
Print Assumptions c20_innermost_wins_partial.

(* FAILED HEADER: a with-statement whose header fails -- constructor or __enter__ raise for whatever
   reason: wrong arguments, an explicit raise, a warning turned into an exception by the filter in force --
   runs no body, raises, and leaves the store UNTOUCHED (every slot, not only the visible values; Python
   runs no __exit__ in this case, so nothing could put a value back). *)
Theorem c20_failed_header_writes_nothing :
  forall c args body G,
    In c checked -> enters gen_table c args G = false ->
    run gen_table (PWith c args body) G = (G, ORaised, []).
Proof. exact failed_entry_gen. Qed.
Print Assumptions c20_failed_header_writes_nothing.

(* the hypothesis is met through the warning path: checkpoint_kernel's header fails with warnings escalated
   to errors and completes with warnings ignored *)
Example ex_c20_warning_header :
  In ex_ck checked /\
  enters gen_table ex_ck [("value", VK (KNum 5 1))] (escalate true (init_store gen_table)) = false /\
  enters gen_table ex_ck [("value", VK (KNum 5 1))] (escalate false (init_store gen_table)) = true.
Proof. exact (conj ex_ck_checked ex_ck_header). Qed.

(* what "checked" covers: every class of gpytorch itself, and every exported name but cholesky_jitter *)
Theorem c20_repo_classes_checked :
  forall c, In c (usable gen_table) -> external c = false -> In c checked.
Proof. exact repo_classes_checked. Qed.
Print Assumptions c20_repo_classes_checked.

Theorem c20_exports_checked :
  forall pub c, In (pub, c) gen_exports -> c <> "lo.cholesky_jitter" -> In c checked.
Proof. exact exports_checked. Qed.
Print Assumptions c20_exports_checked.

(* DEFAULTS: outside all blocks every documented query returns its documented default *)
Theorem c20_defaults_documented :
  map (fun q => match q with (c, m, args) => observe gen_table (init_store gen_table) c m args end) documented_queries
  = map (fun d => VK (snd d)) doc_defaults.
Proof. exact defaults_ok. Qed.
Print Assumptions c20_defaults_documented.

(* the installed linear_operator's cholesky_jitter violates the property (outside /repo) *)
Theorem c20_cholesky_jitter_refuted :
  exists args, let '(G', _, _) := run gen_table (PWith "lo.cholesky_jitter" args PSkip) (init_store gen_table) in
    lookup_v gen_table (init_store gen_table) "lo.cholesky_jitter" "_global_half_value" = VK KNone /\
    lookup_v gen_table G' "lo.cholesky_jitter" "_global_half_value" = VK (KNum 1 2).
Proof. exact cholesky_jitter_leaks. Qed.
Print Assumptions c20_cholesky_jitter_refuted.

(* non-vacuity: a nested program ending in an exception whose classes are all checked, which runs
   and shows non-default values inside and the defaults afterwards *)
Example ex_c20_program_checked : forall c, In c (prog_classes ex_prog) -> In c checked.
Proof. exact ex_prog_checked. Qed.
Example ex_c20_program_runs :
  run_case (ex_queries, ex_prog)
  = [1; 2;  1; 1; 2; 7; 1; 0;   1; 1; 2; 7; 1; 2; 1; 2;   1; 0; 2; 1; 1; 0]%Z.
Proof. exact ex_prog_runs. Qed.
Example ex_c20_program_checked0 : forall c, In c (prog_classes ex_prog) -> In c checked0.
Proof. exact ex_prog_checked0. Qed.

(* a program with a caught exception and a changed warning filter: checkpoint_kernel(2) > try > warnings as
   errors > checkpoint_kernel(9) [header raises] ; observe: the outer block still shows 2, afterwards 0 *)
Example ex_c20_program_w_checked0 : forall c, In c (prog_classes ex_prog_w) -> In c checked0.
Proof. exact ex_prog_w_checked. Qed.
Example ex_c20_program_w_runs :
  run_case ([(ex_ck, "value", [])], ex_prog_w) = [0; 1;  2; 2; 1;  2; 0; 1]%Z.
Proof. exact ex_prog_w_runs. Qed.
