(* C20 — global settings are scoped.  Statement file: theorems, [exact lemma], Print Assumptions.
   Everything is about the class table REGENERATED from the current sources of gpytorch/settings.py,
   gpytorch/beta_features.py and the installed linear_operator/settings.py (Gen/Settings_gen.v);
   Proofs/C20_gen.v re-computes the per-class obligation on that table on every run, so this file
   stops compiling when a source change breaks the save/restore discipline of a gpytorch class.

   Vocabulary (Models/C20_ir.v, Models/C20_check.v):
     run T p G = (G', o, tr)   Python semantics of a program of with-blocks (constructor, __enter__,
                               body, __exit__ on normal AND exceptional exit, exception re-raised; NO
                               __exit__ when the header -- constructor or __enter__ -- raises), of
                               `try: .. except Exception: pass` (PTry) and of blocks that change the
                               warning filter (PEsc) from global store G; o is ONormal / ORaised /
                               OStuck; tr lists the stores at the PObserve points.
     warnings                  `warnings.warn(..)` in a class body is a potential raise point (SWarn):
                               the store slot WARN.site says whether the filter in force turns the
                               warning issued at that statement into an exception.  All theorems
                               quantify over every store, hence over every filter state, also one
                               that changes while the body runs.
     enters T c args G         the header of `with c(args):` completes at store G.
     lookup_v T G c a          what the class attribute c.a evaluates to (base-chain lookup) -- the
                               only thing on()/off()/value()/num_probe_vectors() read.
     observe T G c m args      what the public query c.m(args) returns at store G.
     checked                   every usable context manager of the table except the installed
                               linear_operator.settings.cholesky_jitter (known finding).
     doc_caches                the one slot documented as a cache that is dropped, not restored
                               (deterministic_probes.probe_vectors; it has no query method).
     footprint comp p          the classes of the with-blocks of p and their documented composites. *)
From Coq Require Import List String ZArith Bool.
From GPV Require Import Models.C20_ir Models.C20_check Models.C20_request Models.C20_run Gen.Settings_gen
                        Proofs.C20_scoped Proofs.C20_inner Proofs.C20_request Proofs.C20_gen Proofs.C20_reqgen.
Import ListNotations.
Open Scope string_scope.

(* SCOPED: for EVERY program (any nesting depth, any length, any argument values, any mixture of
   classes, exceptions raised anywhere), from EVERY store: the program does not get stuck, and after
   it -- whether it ended normally or by an exception -- every class attribute reads as before. *)
Theorem c20_scoped :
  forall (p : prog) (G G' : store) (o : outcome) (tr : list store),
    (forall c, In c (prog_classes p) -> In c checked) ->
    run gen_table p G = (G', o, tr) ->
    o <> OStuck /\
    (forall c a, doc_caches c a = false -> lookup_v gen_table G' c a = lookup_v gen_table G c a).
Proof.
  intros p G G' o tr Hc Hr. destruct (scoped_gen p G G' o tr Hc Hr) as [H1 [H2 _]]. exact (conj H1 H2).
Qed.
Print Assumptions c20_scoped.

(* FRAME: at every observation point inside the program, every class that is neither the class of
   one of its with-blocks nor a documented composite of one shows the outer value. *)
Theorem c20_frame :
  forall (p : prog) (G G' : store) (o : outcome) (tr : list store),
    (forall c, In c (prog_classes p) -> In c checked) ->
    run gen_table p G = (G', o, tr) ->
    forall s, In s tr -> forall c a, ~ In c (footprint doc_composites p) -> doc_caches c a = false ->
      lookup_v gen_table s c a = lookup_v gen_table G c a.
Proof.
  intros p G G' o tr Hc Hr. destruct (scoped_gen p G G' o tr Hc Hr) as [_ [_ H3]]. exact H3.
Qed.
Print Assumptions c20_frame.

(* SCOPED, at the level of the public queries: for every program over the checked classes other than
   deterministic_probes (whose probe-vector cache is dropped by design), EVERY query -- any class, any
   method, any arguments: on(), off(), value(dtype), num_probe_vectors(), is_default() ... -- returns
   after the program, normal or exceptional exit, exactly what it returned before. *)
Theorem c20_scoped_queries :
  forall (p : prog) (G G' : store) (o : outcome) (tr : list store),
    (forall c, In c (prog_classes p) -> In c checked0) ->
    run gen_table p G = (G', o, tr) ->
    forall c m args, observe gen_table G' c m args = observe gen_table G c m args.
Proof. exact queries_scoped_gen. Qed.
Print Assumptions c20_scoped_queries.

Theorem c20_checked0_is_checked_minus_probes :
  forall c, In c checked0 <-> (In c checked /\ c <> "lo.deterministic_probes").
Proof.
  intros c. split.
  - intros H. split; [exact (checked0_checked c H)|]. intros E. subst c.
    unfold checked0 in H. apply filter_In in H. destruct H as [_ H]. discriminate H.
  - intros [H1 H2]. exact (checked_checked0 c H1 H2).
Qed.
Print Assumptions c20_checked0_is_checked_minus_probes.

(* INNERMOST WINS.  Vocabulary (Models/C20_request.v):
     doc_requested c           hand-written documentation table: the public queries (class, method, arguments)
                               a block `with c(args):` determines, each with a decision tree over the block's
                               arguments ("omitted?", "None?") whose leaves are an argument, a constant, or a
                               value shown OUTSIDE the block.  Flag classes: on() = state (default True; None =
                               back to the class default), off() = not on(), is_default() = state is None;
                               value classes: value() = the argument; per-dtype classes: value(dtype) = that
                               dtype's argument if supplied and not None, else the outer value; fast_pred_var
                               also num_probe_vectors() = the argument (default 1); fast_computations /
                               linalg_dtypes: the queries of their members.
     requested T args G t      the value of such a tree for the arguments args and the outer store G
                               (c20_requested_* below spell it out).
   For EVERY usable class c (context manager nobody inherits from), all arguments, all bodies over checked
   classes, every store G (any nesting context: G is whatever the enclosing blocks established): either the
   header does not complete (nothing is observed; by c20_failed_header_writes_nothing nothing changed), or
     - at the first point of the body every documented query of the block returns EXACTLY what the
       arguments request, and
     - it keeps returning that at every later point of the body, for every query whose class has no
       block (own or composite) in the body; inner blocks of that class show their own requested values
       (this theorem, applied to them) and put the outer ones back when they end (c20_scoped_queries).
   The per-class obligation behind it (constructor + __enter__ of the REGENERATED source establish the
   documented values, for both answers to every question the code asks; the queries read nothing but
   what the block wrote) is re-computed on every run: Proofs/C20_reqgen.v req_table. *)
Theorem c20_innermost_wins :
  forall c args body G G' o tr,
    In c (usable gen_table) ->
    (forall k, In k (prog_classes body) -> In k checked) ->
    run gen_table (PWith c args (PSeq PObserve body)) G = (G', o, tr) ->
    (enters gen_table c args G = false /\ tr = []) \/
    exists s0 tr', tr = s0 :: tr' /\
      (forall k m qa t, In ((k, m, qa), t) (doc_requested c) ->
         observe gen_table s0 k m qa = requested gen_table args G t) /\
      (forall s, In s tr' -> forall k m qa t, In ((k, m, qa), t) (doc_requested c) ->
         ~ In k (footprint doc_composites body) ->
         observe gen_table s k m qa = requested gen_table args G t).
Proof. exact innermost_requested_gen. Qed.
Print Assumptions c20_innermost_wins.

(* ... UNTIL an inner block of the same footprint is entered: the body may continue (b2: anything, also
   blocks of c itself); throughout b1 the requested values stay visible for the classes without a block in b1 *)
Theorem c20_innermost_wins_until :
  forall c args b1 b2 G G' o tr,
    In c (usable gen_table) ->
    (forall k, In k (prog_classes b1) -> In k checked) ->
    run gen_table (PWith c args (PSeq PObserve (PSeq b1 b2))) G = (G', o, tr) ->
    (enters gen_table c args G = false /\ tr = []) \/
    exists s0 tr1 tr2, tr = s0 :: tr1 ++ tr2 /\
      (exists Ga oa, run gen_table b1 s0 = (Ga, oa, tr1)) /\
      (forall k m qa t, In ((k, m, qa), t) (doc_requested c) ->
         observe gen_table s0 k m qa = requested gen_table args G t) /\
      (forall s, In s tr1 -> forall k m qa t, In ((k, m, qa), t) (doc_requested c) ->
         ~ In k (footprint doc_composites b1) ->
         observe gen_table s k m qa = requested gen_table args G t).
Proof. exact innermost_requested_until_gen. Qed.
Print Assumptions c20_innermost_wins_until.

(* the documentation table has an entry for every usable class, and the regenerated source meets it *)
Theorem c20_every_usable_class_sets_requested :
  forall c, In c (usable gen_table) ->
    enter_sets_requested gen_table doc_composites doc_caches doc_requested c = true /\ doc_requested c <> [].
Proof. exact req_usable_nonempty. Qed.
Print Assumptions c20_every_usable_class_sets_requested.

(* what [requested] means, construct by construct (every table, arguments, outer store) *)
Theorem c20_requested_arg_default :     (* "the argument p (default d)" *)
  forall T args G p d,
    requested T args G (arg_default p d) = match assoc p args with Some v => v | None => VK d end.
Proof. exact requested_arg_default. Qed.
Theorem c20_requested_arg_or_else :     (* "the argument p if supplied and not None, else e" *)
  forall T args G p e,
    requested T args G (arg_or_else p e)
    = match assoc p args with None | Some (VK KNone) => requested T args G e | Some v => v end.
Proof. exact requested_arg_or_else. Qed.
Theorem c20_requested_arg :             (* the argument itself (value classes: it is mandatory) *)
  forall T args G p, requested T args G (RVal (arg p)) = match assoc p args with Some v => v | None => VK KNone end.
Proof. exact requested_arg. Qed.
Theorem c20_requested_outer :           (* the value shown outside the block *)
  forall T args G c a, requested T args G (RVal (outer c a)) = lookup_v T G c a.
Proof. exact requested_outer. Qed.
Theorem c20_requested_flag_on :
  forall T args G p k t, In ((k, "on", []), t) (req_flag p k) ->
    requested T args G t = match assoc p args with
                           | None => VK (KBool true)
                           | Some (VK KNone) => lookup_v T G k "_default"
                           | Some v => v
                           end.
Proof. exact requested_flag_on. Qed.
Theorem c20_requested_flag_off :
  forall T args G p k t ton, In ((k, "off", []), t) (req_flag p k) -> In ((k, "on", []), ton) (req_flag p k) ->
    requested T args G t = VK (KBool (negb (conc_truth (requested T args G ton)))).
Proof. exact requested_flag_off. Qed.
Theorem c20_requested_flag_is_default :
  forall T args G p k t, In ((k, "is_default", []), t) (req_flag p k) ->
    requested T args G t = match assoc p args with Some (VK KNone) => VK (KBool true) | _ => VK (KBool false) end.
Proof. exact requested_flag_is_default. Qed.
Print Assumptions c20_requested_arg_or_else.
Print Assumptions c20_requested_flag_on.

(* readable instance: a flag block with an explicit boolean state shows exactly that state *)
Theorem c20_flag_block_shows_state :
  forall c b body G G' o tr,
    In c (usable gen_table) -> doc_requested c = req_flag "state" c ->
    run gen_table (PWith c [("state", VK (KBool b))] (PSeq PObserve body)) G = (G', o, tr) ->
    (enters gen_table c [("state", VK (KBool b))] G = false /\ tr = []) \/
    exists s0 tr', tr = s0 :: tr' /\
      observe gen_table s0 c "on" [] = VK (KBool b) /\
      observe gen_table s0 c "off" [] = VK (KBool (negb b)) /\
      observe gen_table s0 c "is_default" [] = VK (KBool false).
Proof. exact flag_block_gen. Qed.
Print Assumptions c20_flag_block_shows_state.
Example ex_c20_debug_is_flag :
  In "gp.debug" (usable gen_table) /\ doc_requested "gp.debug" = req_flag "state" "gp.debug".
Proof. exact ex_debug_is_flag. Qed.
(* non-vacuity of c20_innermost_wins: the outer block of ex_prog enters (so the right disjunct is the one
   that holds: see ex_c20_program_runs for the values), and the table requests its 7 probe vectors *)
Example ex_c20_innermost_hypotheses :
  In "gp.fast_pred_var" (usable gen_table) /\
  enters gen_table "gp.fast_pred_var" ex_outer_args (init_store gen_table) = true /\
  In (("gp.fast_pred_var", "num_probe_vectors", []), arg_default "num_probe_vectors" (KNum 1 1))
     (doc_requested "gp.fast_pred_var") /\
  requested gen_table ex_outer_args (init_store gen_table) (arg_default "num_probe_vectors" (KNum 1 1)) = VK (KNum 7 1).
Proof. exact ex_outer_enters. Qed.

(* INNERMOST WINS, slot level (for EVERY class, not only those of the block): whatever a block shows at the
   start of its body (s0) is what every later observation in its body shows, for every class that has no
   inner block in the body *)
Theorem c20_innermost_persists :
  forall c args body G G' o tr,
    (forall k, In k (prog_classes body) -> In k checked) ->
    run gen_table (PWith c args (PSeq PObserve body)) G = (G', o, tr) ->
    tr = [] \/ exists s0 tr', tr = s0 :: tr' /\
      forall s, In s tr' -> forall k a, ~ In k (footprint doc_composites body) -> doc_caches k a = false ->
        lookup_v gen_table s k a = lookup_v gen_table s0 k a.
Proof. exact innermost_gen. Qed.
Print Assumptions c20_innermost_persists.

(* FAILED HEADER: a with-statement whose header fails -- constructor or __enter__ raise for whatever
   reason: wrong arguments, an explicit raise, a warning turned into an exception by the filter in force --
   runs no body, raises, and leaves the store UNTOUCHED (every slot, not only the visible values; Python
   runs no __exit__ in this case, so nothing could put a value back). *)
Theorem c20_failed_header_writes_nothing :
  forall c args body G,
    In c checked -> enters gen_table c args G = false ->
    run gen_table (PWith c args body) G = (G, ORaised, []).
Proof. exact failed_entry_gen. Qed.
Print Assumptions c20_failed_header_writes_nothing.

(* the hypothesis is met through the warning path: checkpoint_kernel's header fails with warnings escalated
   to errors and completes with warnings ignored *)
Example ex_c20_warning_header :
  In ex_ck checked /\
  enters gen_table ex_ck [("value", VK (KNum 5 1))] (escalate true (init_store gen_table)) = false /\
  enters gen_table ex_ck [("value", VK (KNum 5 1))] (escalate false (init_store gen_table)) = true.
Proof. exact (conj ex_ck_checked ex_ck_header). Qed.

(* what "checked" covers: every class of gpytorch itself, and every exported name but cholesky_jitter *)
Theorem c20_repo_classes_checked :
  forall c, In c (usable gen_table) -> external c = false -> In c checked.
Proof. exact repo_classes_checked. Qed.
Print Assumptions c20_repo_classes_checked.

Theorem c20_exports_checked :
  forall pub c, In (pub, c) gen_exports -> c <> "lo.cholesky_jitter" -> In c checked.
Proof. exact exports_checked. Qed.
Print Assumptions c20_exports_checked.

(* DEFAULTS: outside all blocks every documented query returns its documented default *)
Theorem c20_defaults_documented :
  map (fun q => match q with (c, m, args) => observe gen_table (init_store gen_table) c m args end) documented_queries
  = map (fun d => VK (snd d)) doc_defaults.
Proof. exact defaults_ok. Qed.
Print Assumptions c20_defaults_documented.

(* the installed linear_operator's cholesky_jitter violates the property (outside /repo) *)
Theorem c20_cholesky_jitter_refuted :
  exists args, let '(G', _, _) := run gen_table (PWith "lo.cholesky_jitter" args PSkip) (init_store gen_table) in
    lookup_v gen_table (init_store gen_table) "lo.cholesky_jitter" "_global_half_value" = VK KNone /\
    lookup_v gen_table G' "lo.cholesky_jitter" "_global_half_value" = VK (KNum 1 2).
Proof. exact cholesky_jitter_leaks. Qed.
Print Assumptions c20_cholesky_jitter_refuted.

(* non-vacuity: a nested program ending in an exception whose classes are all checked, which runs
   and shows non-default values inside and the defaults afterwards *)
Example ex_c20_program_checked : forall c, In c (prog_classes ex_prog) -> In c checked.
Proof. exact ex_prog_checked. Qed.
Example ex_c20_program_runs :
  run_case (ex_queries, ex_prog)
  = [1; 2;  1; 1; 2; 7; 1; 0;   1; 1; 2; 7; 1; 2; 1; 2;   1; 0; 2; 1; 1; 0]%Z.
Proof. exact ex_prog_runs. Qed.
Example ex_c20_program_checked0 : forall c, In c (prog_classes ex_prog) -> In c checked0.
Proof. exact ex_prog_checked0. Qed.

(* a program with a caught exception and a changed warning filter: checkpoint_kernel(2) > try > warnings as
   errors > checkpoint_kernel(9) [header raises] ; observe: the outer block still shows 2, afterwards 0 *)
Example ex_c20_program_w_checked0 : forall c, In c (prog_classes ex_prog_w) -> In c checked0.
Proof. exact ex_prog_w_checked. Qed.
Example ex_c20_program_w_runs :
  run_case ([(ex_ck, "value", [])], ex_prog_w) = [0; 1;  2; 2; 1;  2; 0; 1]%Z.
Proof. exact ex_prog_w_runs. Qed.
