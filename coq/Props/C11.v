(* C11 — Multitask MVN: one joint distribution regardless of layout, constructor or index.
   Statement file: theorems, [exact lemma], Print Assumptions.  All statements are over Z with
   the Python index/slice semantics of Base/PySlice.v and hold for ALL n, t > 0. *)
From Coq Require Import ZArith List Bool.
From GPV Require Import Base.PySlice Models.C11_mtmvn Proofs.C11_mtmvn Gen.MTIndex_gen Proofs.C11_gen.
Import ListNotations.
Local Open Scope Z_scope.

(* --- layouts: both flattening maps are bijections [0,n) x [0,t) -> [0, n t) ------------------ *)
Theorem c11_flatten_in_range :
  forall il n t i a, 0 <= i < n -> 0 <= a < t -> 0 <= flat il n t i a < n * t.
Proof. exact flat_range. Qed.
Print Assumptions c11_flatten_in_range.

Theorem c11_flatten_injective :
  forall il n t i a j b, 0 <= i < n -> 0 <= a < t -> 0 <= j < n -> 0 <= b < t ->
    flat il n t i a = flat il n t j b -> i = j /\ a = b.
Proof. exact flat_injective. Qed.
Print Assumptions c11_flatten_injective.

Theorem c11_flatten_surjective :
  forall il n t k, 0 < n -> 0 < t -> 0 <= k < n * t ->
    exists i a, 0 <= i < n /\ 0 <= a < t /\ flat il n t i a = k.
Proof. exact flat_surjective. Qed.
Print Assumptions c11_flatten_surjective.

(* the perfect shuffle is a permutation of [0, n t) carrying the interleaved position of every
   pair to its non-interleaved position, with [unshuffle] as two-sided inverse *)
Theorem c11_layout_permutation :
  forall n t, 0 < n -> 0 < t ->
    (forall k, 0 <= k < n * t ->
        0 <= shuffle n t k < n * t /\ unshuffle n t (shuffle n t k) = k
        /\ shuffle n t (unshuffle n t k) = k)
    /\ (forall i a, 0 <= i < n -> 0 <= a < t ->
        shuffle n t (flat true n t i a) = flat false n t i a).
Proof.
  intros n t Hn Ht. split.
  - intros k Hk. split; [exact (shuffle_range n t k Hn Ht Hk)|].
    split; [exact (unshuffle_shuffle n t k Hn Ht Hk)|exact (shuffle_unshuffle n t k Hn Ht Hk)].
  - exact (shuffle_flat n t).
Qed.
Print Assumptions c11_layout_permutation.

(* the two stored matrices of one joint law J(i,a,j,b) are related by that permutation, and in
   each layout entry (flat(i,a), flat(j,b)) is J(i,a,j,b) *)
Theorem c11_layouts_same_law :
  forall (X : Type) (J : Z -> Z -> Z -> Z -> X) n t, 0 < n -> 0 < t ->
    (forall k l, 0 <= k < n * t -> 0 <= l < n * t ->
       cov_of_joint J false n t (shuffle n t k) (shuffle n t l) = cov_of_joint J true n t k l)
    /\ (forall il i a j b, 0 <= i < n -> 0 <= a < t -> 0 <= j < n -> 0 <= b < t ->
       cov_of_joint J il n t (flat il n t i a) (flat il n t j b) = J i a j b).
Proof.
  intros X J n t Hn Ht. split.
  - intros k l. exact (layouts_same_law J n t k l Hn Ht).
  - intros il i a j b. exact (cov_of_joint_flat J il n t i a j b).
Qed.
Print Assumptions c11_layouts_same_law.

(* --- view / transpose pairs ------------------------------------------------------------------ *)
(* .mean / .variance / rsample output undo the flattening done by the constructor, and vice versa *)
Theorem c11_view_transpose_inverse :
  forall (X : Type) il n t, 0 < n -> 0 < t ->
    (forall (m : Z -> Z -> X) i a, 0 <= i < n -> 0 <= a < t ->
        mean_of_loc il n t (loc_of_mean il n t m) i a = m i a)
    /\ (forall (v : Z -> X) k, 0 <= k < n * t -> loc_of_mean il n t (mean_of_loc il n t v) k = v k)
    /\ (forall (v : Z -> X) i a, mean_of_loc il n t v i a = v (flat il n t i a)).
Proof.
  intros X il n t Hn Ht. split; [|split].
  - intros m i a. exact (mean_of_loc_of_mean il n t m i a).
  - intros v k. exact (loc_of_mean_of_loc il n t v k Hn Ht).
  - exact (mean_of_loc_flat il n t).
Qed.
Print Assumptions c11_view_transpose_inverse.

(* log_prob (repaired source) flattens its argument the way the mean was flattened *)
Theorem c11_logprob_value_layout :
  forall (X : Type) il n t (v : Z -> Z -> X) k, logprob_flatten il n t v k = loc_of_mean il n t v k.
Proof. intros X. exact (@logprob_flatten_matches X). Qed.
Print Assumptions c11_logprob_value_layout.

(* the pinned log_prob (view instead of transpose) pairs the wrong entries when n <> t ... *)
Theorem c11_logprob_pinned_refuted :
  exists (n t : Z) (v : Z -> Z -> Z) (k : Z), 0 < n /\ 0 < t /\ 0 <= k < n * t /\
    logprob_flatten_pinned false n t v k <> loc_of_mean false n t v k.
Proof. exact logprob_flatten_pinned_wrong. Qed.
Print Assumptions c11_logprob_pinned_refuted.

(* ... and is right exactly where the fixtures look: square shapes *)
Theorem c11_logprob_pinned_square_partial :
  forall (X : Type) il n (v : Z -> Z -> X) k, 0 < n -> 0 <= k < n * n ->
    logprob_flatten_pinned il n n v k = loc_of_mean il n n v k.
Proof. intros X. exact (@logprob_flatten_pinned_square X). Qed.
Print Assumptions c11_logprob_pinned_square_partial.

(* to_data_independent_dist reads block i at the flat positions of (i, 0..t-1) *)
Theorem c11_data_independent_indices :
  forall il n t i a, tdid_index il n t i a = flat il n t i a.
Proof. exact tdid_index_flat. Qed.
Print Assumptions c11_data_independent_indices.

(* --- constructors: block placement gives the joint law of independent tasks ------------------- *)
Theorem c11_constructors_independent_tasks :
  forall (X : Type) (zero : X) il n t blocks i a j b,
    0 <= i < n -> 0 <= a < t -> 0 <= j < n -> 0 <= b < t ->
    block_cov zero il n t blocks (flat il n t i a) (flat il n t j b) = indep_joint zero blocks i a j b.
Proof. intros X. exact (@block_cov_is_indep X). Qed.
Print Assumptions c11_constructors_independent_tasks.

(* from_batch_mvn: an accepted task_dim (negative values count from the end of the batch shape) is
   normalised to a position 0..nbatch of the batch shape *)
Theorem c11_from_batch_mvn_task_dim :
  forall nbatch td k, 0 < nbatch -> task_dim_norm nbatch td = Some k ->
    0 <= k <= nbatch /\ (k = td \/ k = nbatch + td).
Proof. exact task_dim_norm_ok. Qed.
Print Assumptions c11_from_batch_mvn_task_dim.

(* --- indexing: every branch selects exactly the requested (point, task) pairs ----------------- *)
(* for all n, t, all ints (negative too), all slices (any start/stop/step, None), index vectors,
   in both layouts: the flat positions the code reads = the flat positions of the pairs that
   mean[..., ri, ci] selects, in the result's own layout; errors coincide as well *)
Theorem c11_getitem_selects_requested_pairs :
  forall il n t ri ci, 0 < n -> 0 < t ->
    getitem_event il n t ri ci = spec_indices il n t ri ci.
Proof. exact getitem_event_correct. Qed.
Print Assumptions c11_getitem_selects_requested_pairs.

Theorem c11_getitem_positions_in_range :
  forall il n t ri ci l k, 0 < n -> 0 < t ->
    getitem_event il n t ri ci = Some l -> In k l -> 0 <= k < n * t.
Proof. exact getitem_event_in_range. Qed.
Print Assumptions c11_getitem_positions_in_range.

(* index tuples: explicit form, omitted task index, ellipsis *)
Theorem c11_tuple_explicit :
  forall dim (b : list pyidx) ri ci, Z.of_nat (length b) + 2 = dim ->
    normalize_tuple dim (map EI b ++ [EI ri; EI ci]) = Some (b, Some (ri, ci)).
Proof. exact normalize_tuple_explicit. Qed.
Print Assumptions c11_tuple_explicit.

Theorem c11_tuple_omitted_task_index :
  forall dim (b : list pyidx) ri, Z.of_nat (length b) + 2 = dim ->
    normalize_tuple dim (map EI b ++ [EI ri])
    = normalize_tuple dim (map EI b ++ [EI ri; EI (ISlice full_slice)]).
Proof. exact normalize_tuple_no_task. Qed.
Print Assumptions c11_tuple_omitted_task_index.

(* --- tie T: the same theorems over the arithmetic REGENERATED from the current source ------------
   Gen/MTIndex_gen.v is rewritten by harness/translators/mtindex_tr.py on every run from
   MultitaskMultivariateNormal.__getitem__ / _normalize_index / _normalize_slice /
   to_data_independent_dist; these statements are re-checked against that text. *)
Theorem c11_gen_getitem_selects_requested_pairs :
  forall il n t ri ci, 0 < n -> 0 < t ->
    gen_getitem_event il n t ri ci = spec_indices il n t ri ci.
Proof. exact gen_getitem_event_correct. Qed.
Print Assumptions c11_gen_getitem_selects_requested_pairs.

Theorem c11_gen_getitem_positions_in_range :
  forall il n t ri ci l k, 0 < n -> 0 < t ->
    gen_getitem_event il n t ri ci = Some l -> In k l -> 0 <= k < n * t.
Proof. exact gen_getitem_event_in_range. Qed.
Print Assumptions c11_gen_getitem_positions_in_range.

Theorem c11_gen_tuple_explicit :
  forall dim (b : list pyidx) ri ci, Z.of_nat (length b) + 2 = dim ->
    gen_normalize_tuple dim (map EI b ++ [EI ri; EI ci]) = Some (b, Some (ri, ci)).
Proof. exact gen_tuple_explicit. Qed.
Print Assumptions c11_gen_tuple_explicit.

Theorem c11_gen_tuple_omitted_task_index :
  forall dim (b : list pyidx) ri, Z.of_nat (length b) + 2 = dim ->
    gen_normalize_tuple dim (map EI b ++ [EI ri])
    = gen_normalize_tuple dim (map EI b ++ [EI ri; EI (ISlice full_slice)]).
Proof. exact gen_tuple_no_task. Qed.
Print Assumptions c11_gen_tuple_omitted_task_index.

(* to_data_independent_dist: data_indices[i] + task_indices[a] (the two aranges of the source) is the
   flat position of the pair (i, a) in the layout of the stored covariance *)
Theorem c11_gen_data_independent_indices :
  forall il n t i a, 0 < n -> 0 < t -> 0 <= i < n -> 0 <= a < t ->
    gen_tdid_index il n t i a = flat il n t i a.
Proof. exact gen_tdid_index_flat. Qed.
Print Assumptions c11_gen_data_independent_indices.

(* the model executed by the correspondence check (run_getitem) IS the regenerated arithmetic *)
Theorem c11_gen_is_the_executed_model :
  forall c, gen_run_getitem c = run_getitem c.
Proof. exact gen_run_getitem_eq. Qed.
Print Assumptions c11_gen_is_the_executed_model.

(* --- the pinned arithmetic is refuted (DESIGN section 10; repaired by fix: commits) ------------ *)
Theorem c11_slice_int_pinned_refuted :
  exists NR NC s c, 0 < NR /\ 0 < NC /\
    code_slice_int_pinned s c NR NC <> spec_indices true NR NC (ISlice s) (IInt c).
Proof. exact slice_int_pinned_wrong. Qed.
Print Assumptions c11_slice_int_pinned_refuted.

Theorem c11_int_slice_pinned_refuted :
  exists NR NC r s, 0 < NR /\ 0 < NC /\
    code_int_slice_pinned r s NR NC <> spec_indices true NR NC (IInt r) (ISlice s).
Proof. exact int_slice_pinned_wrong. Qed.
Print Assumptions c11_int_slice_pinned_refuted.

Theorem c11_pair_unnormalised_refuted :
  exists NR NC r c, 0 <= r < NR /\ - NC <= c < 0 /\
    code_pair_pinned r c NR NC <> Some (flat true NR NC r (normalize_index c NC)).
Proof. exact pair_pinned_wrong. Qed.
Print Assumptions c11_pair_unnormalised_refuted.

(* --- non-vacuity: the documented failing input, on the repaired arithmetic --------------------- *)
Example ex_c11_getitem_slice_int :
  getitem_event true 4 3 (ISlice (mk (Some 1) (Some 3) None)) (IInt 2) = Some [5; 8].
Proof. vm_compute. reflexivity. Qed.
Example ex_c11_getitem_noninterleaved_neg :
  getitem_event false 4 3 (ISlice (mk (Some (-3)) None (Some 2))) (ITensor [-1; 0]) = Some [9; 11; 1; 3].
Proof. vm_compute. reflexivity. Qed.
Example ex_c11_shuffle : map (shuffle 2 3) [0; 1; 2; 3; 4; 5] = [0; 2; 4; 1; 3; 5].
Proof. vm_compute. reflexivity. Qed.
Example ex_c11_gen_getitem_slice_int :
  gen_tie_available = true -> gen_getitem_event true 4 3 (ISlice (mk (Some 1) (Some 3) None)) (IInt 2) = Some [5; 8].
Proof. intros _. rewrite gen_getitem_event_eq. vm_compute. reflexivity. Qed.

(* ---- "positions valid" for every index form AND every size (Proofs/C11_index_range.v):
   c11_getitem_positions_in_range above needs 0 < n, 0 < t; this one covers the degenerate laws
   (n = 0 points or t = 0 tasks) as well, for both layouts and every pair of components
   int / slice / index tensor, hand-written and regenerated arithmetic *)
From GPV Require Import Proofs.C11_index_range.
Theorem c11_getitem_positions_in_range_all_sizes :
  forall il n t ri ci l k, 0 <= n -> 0 <= t ->
    getitem_event il n t ri ci = Some l -> In k l -> 0 <= k < n * t.
Proof. exact getitem_event_in_range_all_sizes. Qed.
Print Assumptions c11_getitem_positions_in_range_all_sizes.

Theorem c11_gen_getitem_positions_in_range_all_sizes :
  forall il n t ri ci l k, 0 <= n -> 0 <= t ->
    gen_getitem_event il n t ri ci = Some l -> In k l -> 0 <= k < n * t.
Proof. exact gen_getitem_event_in_range_all_sizes. Qed.
Print Assumptions c11_gen_getitem_positions_in_range_all_sizes.

Example ex_c11_getitem_event_empty :
  getitem_event false 0 3 (ISlice (mk None None (Some 2))) (ITensor [-1; 0]) = Some [].
Proof. exact ex_getitem_event_empty. Qed.
