(* C06 — diag / transpose / lazy evaluation / indexing of a kernel all agree.
   Statements only; proofs are in Proofs/C06_index.v and Proofs/C06_lazyslice.v.
   gen_mo_getitem is REGENERATED from /repo/gpytorch/lazy/lazy_evaluated_kernel_tensor.py on every
   run (tie T); everything else is tied to /repo by harness/drivers/C06.py (tie C). *)
From Coq Require Import ZArith List Bool String.
From GPV Require Import Base.PySlice Models.C11_mtmvn Models.C06_index Models.C06_lazyslice
     Gen.LazySlice_gen Proofs.C06_lazyslice Proofs.C06_index Models.C06_bcast Proofs.C06_bcast.
Import ListNotations.

(* ---- (i) gather-style indexing of an entrywise kernel matrix *)

(* any row / column index maps (slices, index tensors, repetition, permutation): indexing the
   evaluated matrix = evaluating on the indexed inputs *)
Theorem index_commutes : forall (X V : Type) (k : X -> X -> V) (x1 x2 : nat -> X) (r c : nat -> nat) i j,
  gatherF r c (Kmat k x1 x2) i j = Kmat k (fun a => x1 (r a)) (fun b => x2 (c b)) i j.
Proof. exact @Proofs.C06_index.index_commutes. Qed.
Print Assumptions index_commutes.

(* the same for Python index expressions with torch's semantics (ints, slices with any start / stop /
   step incl. None, negative and out-of-range bounds, 1-D index tensors with negative or repeated
   entries), on lists of any length *)
Theorem index_commutes_py : forall (X V : Type) (k : X -> X -> V) (X1 X2 : list X) (ri ci : pyidx)
    (rows cols : list Z) (d : X) (dv : V),
  idx_positions (Z.of_nat (List.length X1)) ri = Some rows ->
  idx_positions (Z.of_nat (List.length X2)) ci = Some cols ->
  Kdense k (sel d (map Z.to_nat rows) X1) (sel d (map Z.to_nat cols) X2)
  = map (sel dv (map Z.to_nat cols)) (sel [] (map Z.to_nat rows) (Kdense k X1 X2)).
Proof. exact @Proofs.C06_index.index_commutes_py. Qed.
Print Assumptions index_commutes_py.

Example ex_index_commutes_py :
  (idx_positions 4 (ISlice (mk (Some (-3)) None (Some 2))) = Some [1; 3] /\
   idx_positions 3 (ITensor [2; -1; 0]) = Some [2; 2; 0])%Z.
Proof. vm_compute. split; reflexivity. Qed.

(* diag=True is the diagonal of the full matrix, also after indexing *)
Theorem diag_is_diagonal : forall (X V : Type) (k : X -> X -> V) (x1 x2 : nat -> X) i,
  Kdiag k x1 x2 i = Kmat k x1 x2 i i.
Proof. exact @Proofs.C06_index.diag_is_diagonal. Qed.
Print Assumptions diag_is_diagonal.

Theorem diag_of_indexed : forall (X V : Type) (k : X -> X -> V) (x1 x2 : nat -> X) (r : nat -> nat) i,
  Kdiag k (fun a => x1 (r a)) (fun a => x2 (r a)) i = gatherF r r (Kmat k x1 x2) i i.
Proof. exact @Proofs.C06_index.diag_of_indexed. Qed.
Print Assumptions diag_of_indexed.

(* K(x2, x1) = K(x1, x2)^T for a symmetric covariance function (this is what
   LazyEvaluatedKernelTensor._transpose_nonbatch relies on) *)
Theorem transpose_swaps_inputs : forall (X V : Type) (k : X -> X -> V) (x1 x2 : nat -> X),
  (forall a b, k a b = k b a) -> forall i j, Kmat k x2 x1 i j = transposeF (Kmat k x1 x2) i j.
Proof. exact @Proofs.C06_index.transpose_swaps_inputs. Qed.
Print Assumptions transpose_swaps_inputs.

(* blocks of K on stacked inputs = separately computed blocks *)
Theorem stacked_blocks : forall (X V : Type) (k : X -> X -> V) n m (x1 x1' x2 x2' : nat -> X) i j,
  Kmat k (stackF n x1 x1') (stackF m x2 x2') i j =
  blockF n m (Kmat k x1 x2) (Kmat k x1 x2') (Kmat k x1' x2) (Kmat k x1' x2') i j.
Proof. exact @Proofs.C06_index.stacked_blocks. Qed.
Print Assumptions stacked_blocks.

(* batch indices (any selection bs of batch elements, with repetition), jointly with row / column
   index maps: batch element b of the indexed tensor is the kernel of element bs b on the indexed inputs *)
Theorem batch_index_commutes : forall (X V B B' : Type) (kb : B -> X -> X -> V) (x1 x2 : B -> nat -> X)
    (bs : B' -> B) (r c : nat -> nat) b i j,
  Kbatch kb x1 x2 (bs b) (r i) (c j) =
  Kbatch (fun b' => kb (bs b')) (fun b' a => x1 (bs b') (r a)) (fun b' a => x2 (bs b') (c a)) b i j.
Proof. exact @Proofs.C06_index.batch_index_commutes. Qed.
Print Assumptions batch_index_commutes.

(* ---- multi-output kernels (num_outputs_per_input = p x q, interleaved layout) *)

(* output rows `expand p rows` / columns `expand q cols` of K(x1, x2) are K(x1[rows], x2[cols]),
   for any input selections and any p, q *)
Theorem multi_output_gather : forall (X V : Type) (k : X -> X -> Z -> Z -> V) p q (x1 x2 : Z -> X)
    (rows cols : list Z) i j,
  (0 < p)%Z -> (0 < q)%Z ->
  (0 <= i < p * Z.of_nat (List.length rows))%Z -> (0 <= j < q * Z.of_nat (List.length cols))%Z ->
  MOmat p q k x1 x2 (nth (Z.to_nat i) (expand p rows) 0%Z) (nth (Z.to_nat j) (expand q cols) 0%Z)
  = MOmat p q k (fun t => x1 (nth (Z.to_nat t) rows 0%Z)) (fun t => x2 (nth (Z.to_nat t) cols 0%Z)) i j.
Proof. exact @Proofs.C06_index.multi_output_gather. Qed.
Print Assumptions multi_output_gather.

Theorem multi_output_transpose : forall (X V : Type) (k : X -> X -> Z -> Z -> V) p q (x1 x2 : Z -> X),
  (forall a b s t, k a b s t = k b a t s) ->
  forall r c, MOmat q p k x2 x1 c r = MOmat p q k x1 x2 r c.
Proof. exact @Proofs.C06_index.multi_output_transpose. Qed.
Print Assumptions multi_output_transpose.

(* ---- (ii) the slice division, over the arithmetic regenerated from the source (tie T) *)

(* whenever the code takes the fast path (continues with divided slices instead of evaluating first)
   the divided slices select exactly the requested output rows / columns: all output counts, all
   sizes, negative / None / out-of-range bounds.
   _partial: an explicit stop of 0 is excluded.  For it the statement is FALSE of snapshot 66db6d9
   (`row_index.stop or self.shape[-2]`, see multi_output_slice_stop0_refuted; reproduced on the real
   code by the driver: K[0:0, :] of a MultitaskKernel returns all rows).  The full statement is
   attempted against the regenerated text on every run (harness/translators/lazyslice_tr.py,
   FULL_OBLIGATION) and holds once fixes_proposed/C06_multi_output_slice_stop_zero.diff is applied. *)
Theorem multi_output_slice_ok_partial : forall pr pc n m ri ci r c,
  (0 < pr)%Z -> (0 < pc)%Z -> (0 <= n)%Z -> (0 <= m)%Z -> (pr <> 1 \/ pc <> 1)%Z ->
  s_stop ri <> Some 0%Z -> s_stop ci <> Some 0%Z ->
  gen_mo_getitem pr pc (n * pr) (m * pc) (MSlice ri) (MSlice ci) = Divided r c ->
  exists r' c' rows cols, r = MSlice r' /\ c = MSlice c' /\
    slice_positions n r' = Some rows /\ slice_positions m c' = Some cols /\
    slice_positions (n * pr) ri = Some (expand pr rows) /\
    slice_positions (m * pc) ci = Some (expand pc cols).
Proof. exact Proofs.C06_lazyslice.multi_output_slice_ok_partial. Qed.
Print Assumptions multi_output_slice_ok_partial.

(* the fast path is taken for a non-trivial request *)
Example ex_fast_path :
  (gen_mo_getitem 2 2 (3 * 2) (4 * 2) (MSlice (mks (Some (-4)) None None)) (MSlice (mks (Some 2) (Some 100) None))
   = Divided (MSlice (mks (Some (-2)) (Some 3) None)) (MSlice (mks (Some 1) (Some 50) None)))%Z.
Proof. vm_compute. reflexivity. Qed.

(* ... and then the lazily sliced tensor has exactly the requested entries of the full matrix *)
Theorem multi_output_fast_path_values_partial : forall (X V : Type) (k : X -> X -> Z -> Z -> V)
    pr pc n m ri ci r c (x1 x2 : Z -> X),
  (0 < pr)%Z -> (0 < pc)%Z -> (0 <= n)%Z -> (0 <= m)%Z -> (pr <> 1 \/ pc <> 1)%Z ->
  s_stop ri <> Some 0%Z -> s_stop ci <> Some 0%Z ->
  gen_mo_getitem pr pc (n * pr) (m * pc) (MSlice ri) (MSlice ci) = Divided r c ->
  exists r' c' rows cols reqr reqc,
    r = MSlice r' /\ c = MSlice c' /\
    slice_positions n r' = Some rows /\ slice_positions m c' = Some cols /\
    slice_positions (n * pr) ri = Some reqr /\ slice_positions (m * pc) ci = Some reqc /\
    List.length reqr = List.length (expand pr rows) /\ List.length reqc = List.length (expand pc cols) /\
    forall i j, (0 <= i < Z.of_nat (List.length reqr))%Z -> (0 <= j < Z.of_nat (List.length reqc))%Z ->
      MOmat pr pc k (fun t => x1 (nth (Z.to_nat t) rows 0%Z)) (fun t => x2 (nth (Z.to_nat t) cols 0%Z)) i j
      = MOmat pr pc k x1 x2 (nth (Z.to_nat i) reqr 0%Z) (nth (Z.to_nat j) reqc 0%Z).
Proof. exact @Proofs.C06_index.multi_output_fast_path_values_partial. Qed.
Print Assumptions multi_output_fast_path_values_partial.

(* single-output kernels: row / column indices of any kind are applied to x1 / x2 unchanged *)
Theorem single_output_untouched : forall sr sc ri ci, gen_mo_getitem 1 1 sr sc ri ci = Divided ri ci.
Proof. exact Proofs.C06_lazyslice.single_output_untouched. Qed.
Print Assumptions single_output_untouched.

(* multi-output kernels: index tensors and stepped slices are evaluated first, never divided *)
Theorem multi_output_other_falls_back : forall pr pc sr sc ri ci, (pr <> 1 \/ pc <> 1)%Z ->
  (is_slice ri = false \/ is_slice ci = false \/ sl_step ri <> None \/ sl_step ci <> None) ->
  gen_mo_getitem pr pc sr sc ri ci = Fallback.
Proof. exact Proofs.C06_lazyslice.multi_output_other_falls_back. Qed.
Print Assumptions multi_output_other_falls_back.

(* hand-pinned copies of the arithmetic (Models/C06_lazyslice.v): the repaired form is right without
   the side condition; the snapshot's form is wrong for stop = 0; without the alignment guard the
   division is wrong (the guard is what makes it sound) *)
Theorem repaired_slice_ok : forall pr pc n m ri ci r c,
  (0 < pr)%Z -> (0 < pc)%Z -> (0 <= n)%Z -> (0 <= m)%Z -> (pr <> 1 \/ pc <> 1)%Z ->
  ref_mo_getitem pr pc (n * pr) (m * pc) (MSlice ri) (MSlice ci) = Divided r c ->
  exists r' c' rows cols, r = MSlice r' /\ c = MSlice c' /\
    slice_positions n r' = Some rows /\ slice_positions m c' = Some cols /\
    slice_positions (n * pr) ri = Some (expand pr rows) /\
    slice_positions (m * pc) ci = Some (expand pc cols).
Proof. exact Proofs.C06_lazyslice.ref_slice_ok. Qed.
Print Assumptions repaired_slice_ok.

Theorem multi_output_slice_stop0_refuted :
  exists pr pc n m ri ci r c,
    (0 < pr /\ 0 < pc /\ 0 <= n /\ 0 <= m /\ (pr <> 1 \/ pc <> 1))%Z /\
    pinned_mo_getitem pr pc (n * pr) (m * pc) (MSlice ri) (MSlice ci) = Divided (MSlice r) (MSlice c) /\
    slice_positions (n * pr) ri = Some [] /\
    slice_positions n r = Some [0; 1; 2]%Z.
Proof.
  destruct Proofs.C06_lazyslice.pinned_stop0_refuted as [pr [pc [n [m [ri [ci [r [c H]]]]]]]].
  exists pr, pc, n, m, ri, ci, r, c. tauto.
Qed.
Print Assumptions multi_output_slice_stop0_refuted.

Theorem multi_output_slice_unguarded_refuted :
  exists pr pc n m ri ci r c,
    unguarded_mo_getitem pr pc (n * pr) (m * pc) (MSlice ri) (MSlice ci) = Divided (MSlice r) (MSlice c) /\
    slice_positions (n * pr) ri = Some [1; 2]%Z /\
    option_map (expand pr) (slice_positions n r) = Some [0; 1]%Z.
Proof. exact Proofs.C06_lazyslice.unguarded_refuted. Qed.
Print Assumptions multi_output_slice_unguarded_refuted.

(* ---- (iii) Kernel.__getitem__ / expand_batch on the parameter + buffer table *)

(* indexing or expanding the batch dimensions leaves the non-batch active_dims buffer alone
   (holds of the code after fix 5a95c3e; the snapshot's behaviour is pinned_getitem_refuted below) *)
Theorem batch_index_preserves_active_dims : forall pos n t,
  lookup ad_name (kernel_getitem pos t) = lookup ad_name t /\
  lookup ad_name (kernel_expand n t) = lookup ad_name t.
Proof. intros pos n t. split; [apply getitem_preserves_active_dims|apply expand_preserves_active_dims]. Qed.
Print Assumptions batch_index_preserves_active_dims.

(* ... while every other parameter / buffer IS indexed / expanded *)
Theorem batch_index_indexes_batch_entries : forall pos n t nm, nm <> ad_name ->
  lookup nm (kernel_getitem pos t) = option_map (index_first pos) (lookup nm t) /\
  lookup nm (kernel_expand n t) = option_map (expand_first n) (lookup nm t).
Proof.
  intros pos n t nm H. split; [apply getitem_indexes_batch_entries|apply expand_expands_batch_entries]; exact H.
Qed.
Print Assumptions batch_index_indexes_batch_entries.

Theorem batch_index_active_dims_pinned_refuted :
  exists pos t, active_cols (kernel_getitem_pinned pos t) <> active_cols t
                /\ active_cols (kernel_getitem pos t) = active_cols t.
Proof. exact Proofs.C06_index.pinned_getitem_refuted. Qed.
Print Assumptions batch_index_active_dims_pinned_refuted.

(* ---- (iv) active_dims restricts a kernel to exactly those input columns, also for kernel[i] and
   for batch expansion *)
Theorem active_dims_is_column_gather : forall (S : Type) (d : S) (cols : list nat) (x : list S) c,
  (c < List.length cols)%nat -> nth c (restrict d (Some cols) x) d = nth (nth c cols 0%nat) x d.
Proof. exact @Proofs.C06_index.restrict_nth. Qed.
Print Assumptions active_dims_is_column_gather.

Theorem active_dims_same_columns_after_getitem_and_expand :
  forall (S V : Type) (d : S) (kfun : table -> nat -> list S -> list S -> V) pos n t b x1 x2 i j,
  eval_kernel d kfun (kernel_getitem pos t) b x1 x2 i j
  = kfun (kernel_getitem pos t) b (restrict d (active_cols t) (x1 i)) (restrict d (active_cols t) (x2 j)) /\
  eval_kernel d kfun (kernel_expand n t) b x1 x2 i j
  = kfun (kernel_expand n t) b (restrict d (active_cols t) (x1 i)) (restrict d (active_cols t) (x2 j)).
Proof.
  intros. split; [apply getitem_eval_same_columns|apply expand_eval_same_columns].
Qed.
Print Assumptions active_dims_same_columns_after_getitem_and_expand.

(* ---- batch broadcasting between x1, x2 and the kernel parameters (Models/C06_bcast.v) *)

(* the batch shape of kernel(x1, x2) = broadcast of the batch shapes of ALL operands absorbs EVERY one of
   them, wherever it stands in the list and however many operands there are: stretching an operand to
   the result leaves the result unchanged (so no operand's batch dimensions can be missing from it) *)
Theorem batch_shape_absorbs_every_operand : forall (l : list (list Z)) r,
  bshapes l = Some r -> forall s, In s l -> bshape s r = Some r.
Proof. exact bshapes_absorbs. Qed.
Print Assumptions batch_shape_absorbs_every_operand.

(* it has at least as many batch dimensions as every operand, and (counted from the right) agrees with
   every operand dimension that is not 1 *)
Theorem batch_shape_rank : forall (l : list (list Z)) r,
  bshapes l = Some r -> forall s, In s l -> (List.length s <= List.length r)%nat.
Proof. exact bshapes_rank. Qed.
Print Assumptions batch_shape_rank.
Theorem batch_shape_dims : forall (l : list (list Z)) r,
  bshapes l = Some r -> forall s k, In s l -> (k < List.length s)%nat ->
  rdim s k = rdim r k \/ rdim s k = 1%Z.
Proof. exact bshapes_dims. Qed.
Print Assumptions batch_shape_dims.

(* broadcasting does not depend on which operand is x1 and which is x2 *)
Theorem batch_shape_symmetric : forall a b, bshape a b = bshape b a.
Proof. exact bshape_comm. Qed.
Print Assumptions batch_shape_symmetric.

(* the operand element that a result element is read from lies inside the operand (reversed shapes /
   multi-indices, as the model computes them) *)
Theorem batch_source_in_bounds : forall s r idx k, fits s r -> List.length idx = List.length r ->
  (forall j, (j < List.length r)%nat -> (0 <= nth j idx 0 < nth j r 1)%Z) ->
  (k < List.length s)%nat -> (0 < nth k s 1)%Z ->
  (0 <= nth k (src_rev s idx) 0 < nth k s 1)%Z.
Proof. exact src_rev_bound. Qed.
Print Assumptions batch_source_in_bounds.

(* non-vacuity: x1 and the kernel without batch, x2 with batch [3]: the result is [3]; the broadcast of
   x1 and the kernel alone ([]) does not absorb x2; a mixed pattern x1 [1], x2 [3,1], kernel [2] *)
Example ex_batch_x2_only :
  bshapes [[]; [3%Z]; []] = Some [3%Z] /\ bshapes [[]; []] = Some [] /\ bshape [3%Z] [] <> Some [].
Proof. exact ex_bshapes_x2_only. Qed.
Example ex_batch_mixed : bshapes [[1%Z]; [3%Z; 1%Z]; [2%Z]] = Some [3%Z; 2%Z].
Proof. exact ex_bshapes_mixed. Qed.

(* ======================================================================================== *)
(* (i') soundness of the model of torch's index semantics itself (Proofs/C06_index_sound.v)   *)
From GPV Require Import Proofs.C06_index_sound.

(* for EVERY shape (dimensions >= 0, zero-size dimensions included) and EVERY index tuple the model
   accepts - ints incl. negative, slices with any start / stop / step under Python semantics (None,
   negative, out-of-range bounds; torch rejects steps <= 0 and so does the model), 1-D index tensors with
   negative / repeated entries incl. their broadcast and the "separated advanced indices go first" rule,
   Ellipsis, omitted trailing dimensions - every flat source position the model returns lies inside the
   flattened source, and the number of positions is the product of the result shape the model reports
   (None / newaxis is not modelled) *)
Theorem c06_index_model_sound : forall (dims : list Z) (idx : list pyidx_e) (shape pos : list Z),
  Forall (fun d => (0 <= d)%Z) dims -> index_model dims idx = Some (shape, pos) ->
  Forall (fun p => (0 <= p < numel dims)%Z) pos /\ Z.of_nat (List.length pos) = numel shape.
Proof. exact Proofs.C06_index_sound.index_model_sound. Qed.
Print Assumptions c06_index_model_sound.

(* pure basic indexing (ints and slices only, Ellipsis allowed): no source entry is selected twice *)
Theorem c06_index_model_basic_injective : forall (dims : list Z) (idx : list pyidx_e) (shape pos : list Z),
  Forall (fun d => (0 <= d)%Z) dims ->
  (forall x, In (EI x) idx -> Models.C11_mtmvn.is_int x || Models.C11_mtmvn.is_slice x = true) ->
  index_model dims idx = Some (shape, pos) -> NoDup pos.
Proof. exact Proofs.C06_index_sound.index_model_basic_injective. Qed.
Print Assumptions c06_index_model_basic_injective.

(* ... and this needs the restriction: an index tensor may select an entry twice *)
Theorem c06_index_model_tensor_injective_refuted :
  exists dims idx shape pos, Forall (fun d => (0 <= d)%Z) dims /\
    index_model dims idx = Some (shape, pos) /\ ~ NoDup pos.
Proof. exact Proofs.C06_index_sound.index_model_tensor_not_injective. Qed.
Print Assumptions c06_index_model_tensor_injective_refuted.

(* non-vacuity: negative int + stepped slice with negative start + Ellipsis; broadcast index tensors
   separated by a slice (the advanced dimension moves to the front) *)
Example ex_c06_index_model_basic :
  (index_model [3; 4; 5] [EI (ISlice (mk (Some (-3)) None (Some 2))); EE; EI (IInt (-2))]
   = Some ([2; 4], [3; 8; 13; 18; 43; 48; 53; 58]))%Z.
Proof. exact Proofs.C06_index_sound.ex_index_model_basic. Qed.
Example ex_c06_index_model_advanced :
  (index_model [3; 4; 5] [EI (ITensor [0; -1]); EI (ISlice (mk (Some 1) (Some 3) None)); EI (ITensor [2])]
   = Some ([2; 2], [7; 12; 47; 52]))%Z.
Proof. exact Proofs.C06_index_sound.ex_index_model_advanced. Qed.
