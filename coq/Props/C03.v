(* C03 — evaluation-mode outputs are history independent (no stale prediction caches).
   Statement file: theorems, [exact lemma], Print Assumptions.  Nothing else.
   Machine: Models/C03_cache.v ([step] with every invalidation point of the code = [all_on],
   including the staleness guards for settings no memo key records and the exception-safe
   get_fantasy_model, and the shape guard of the memoised variational Cholesky factor).  A
   configuration c < 12 is a pair (settings c mod 4, batch shape of the test inputs c / 4: un-batched,
   (2,), (3,)); the settings of every family include the settings-changing ones
   (sgpr_diagonal_correction(False), variational_cholesky_jitter(1e-3)): no hypothesis restricts
   the settings or the input batch shapes used along a history. *)
From Coq Require Import Arith List Bool.
From GPV Require Import Models.C03_cache Proofs.C03_cache.
Import ListNotations.

(* Inv: the object holds its data; every entry sits in a slot some _clear_cache owns and, while
   training = false, carries the current (parameter, data) versions and - for the slots whose
   content depends on an unkeyed setting - the settings value the staleness guard has recorded.
   Holds initially, is preserved by every admissible operation (Step only in training mode;
   configuration in range), hence holds in every reachable state - for every family descriptor
   passing the decidable check wf_family, for histories of ANY length. *)
Theorem c03_valid_caches_invariant :
  forall fam, wf_family fam = true ->
    Inv fam init /\
    (forall s o, Inv fam s -> op_ok fam s o = true -> Inv fam (fst (step all_on fam s o))) /\
    (forall h, admissible all_on fam init h = true -> Inv fam (run all_on fam init h)).
Proof. exact valid_caches_invariant. Qed.
Print Assumptions c03_valid_caches_invariant.

(* from ANY valid eval-mode state a prediction is a function of the current versions and the
   configuration alone *)
Theorem c03_prediction_determined :
  forall fam s c, wf_family fam = true -> Inv fam s -> training s = false -> c < f_ncfg fam ->
    predict_out all_on fam s c =
      (ST_OK, map (fun u => (u_key u, cur_tag fam (pv s) (dv s) (f_ck fam c) (u_slot u))) (f_uses fam c)).
Proof. intros fam s c H. exact (predict_out_eval fam H s c). Qed.
Print Assumptions c03_prediction_determined.

(* after ANY admissible history - predictions under any of the configurations (settings-changing
   ones included), train()/eval(), optimiser steps in training mode, set_train_data,
   load_state_dict, fantasy models, prior-mode calls, backward through non-detached predictions -
   the next eval-mode prediction consults exactly what a freshly constructed object holding the
   same parameters and data consults *)
Theorem c03_history_independence :
  forall fam h c, wf_family fam = true ->
    admissible all_on fam init h = true ->
    c < f_ncfg fam ->
    training (run all_on fam init h) = false ->
    predict_out all_on fam (run all_on fam init h) c =
    predict_out all_on fam (fresh (pv (run all_on fam init h)) (dv (run all_on fam init h)) false) c.
Proof. intros fam h c H. exact (history_independence_gen fam H h c). Qed.
Print Assumptions c03_history_independence.

(* the same from any valid starting state (a freshly constructed object in either mode, or any
   reachable state): the statement is about suffixes of histories as well *)
Theorem c03_history_independence_from :
  forall fam s h c, wf_family fam = true -> Inv fam s ->
    admissible all_on fam s h = true -> c < f_ncfg fam ->
    training (run all_on fam s h) = false ->
    predict_out all_on fam (run all_on fam s h) c =
    predict_out all_on fam (fresh (pv (run all_on fam s h)) (dv (run all_on fam s h)) false) c.
Proof. intros fam s h c H. exact (history_independence_from fam H s h c). Qed.
Print Assumptions c03_history_independence_from.

(* the five concrete families, all 12 configurations (4 settings x 3 input batch shapes) each, no side condition *)
Theorem c03_history_independence_exact :
  forall h c, admissible all_on fam_exact init h = true -> c < 12 ->
    training (run all_on fam_exact init h) = false ->
    predict_out all_on fam_exact (run all_on fam_exact init h) c =
    predict_out all_on fam_exact (fresh (pv (run all_on fam_exact init h)) (dv (run all_on fam_exact init h)) false) c.
Proof. intros h c. exact (history_independence_gen fam_exact wf_exact h c). Qed.
Print Assumptions c03_history_independence_exact.

Theorem c03_history_independence_kiss :
  forall h c, admissible all_on fam_kiss init h = true -> c < 12 ->
    training (run all_on fam_kiss init h) = false ->
    predict_out all_on fam_kiss (run all_on fam_kiss init h) c =
    predict_out all_on fam_kiss (fresh (pv (run all_on fam_kiss init h)) (dv (run all_on fam_kiss init h)) false) c.
Proof. intros h c. exact (history_independence_gen fam_kiss wf_kiss h c). Qed.
Print Assumptions c03_history_independence_kiss.

(* SGPR: configuration 3 is sgpr_diagonal_correction(False); the strategy records the setting it
   was built under and ExactGP.__call__ rebuilds a stale one *)
Theorem c03_history_independence_sgpr :
  forall h c, admissible all_on fam_sgpr init h = true -> c < 12 ->
    training (run all_on fam_sgpr init h) = false ->
    predict_out all_on fam_sgpr (run all_on fam_sgpr init h) c =
    predict_out all_on fam_sgpr (fresh (pv (run all_on fam_sgpr init h)) (dv (run all_on fam_sgpr init h)) false) c.
Proof. intros h c. exact (history_independence_gen fam_sgpr wf_sgpr h c). Qed.
Print Assumptions c03_history_independence_sgpr.

(* variational GPs (with and without fantasy support): settings 3 is
   variational_cholesky_jitter(1e-3); __call__ clears the memo when the jitter differs from the
   recorded one; the single memoised Cholesky factor is keyed by the batch shape of the inputs and
   replaced when a call arrives with another batch shape *)
Theorem c03_history_independence_variational :
  forall b h c, admissible all_on (fam_var b) init h = true -> c < 12 ->
    training (run all_on (fam_var b) init h) = false ->
    predict_out all_on (fam_var b) (run all_on (fam_var b) init h) c =
    predict_out all_on (fam_var b)
      (fresh (pv (run all_on (fam_var b) init h)) (dv (run all_on (fam_var b) init h)) false) c.
Proof. intros b h c. exact (history_independence_gen (fam_var b) (wf_var b) h c). Qed.
Print Assumptions c03_history_independence_variational.

(* exact GP whose training targets contain NaNs: predictions under observation_nan_policy 'ignore' / 'mask' /
   'fill' (and fast_pred_var + 'mask') in every order, interleaved with every other operation: mean_cache is
   memoised per policy, the mask applied to the covariance is recomputed per call *)
Theorem c03_history_independence_exact_nan_targets :
  forall h c, admissible all_on fam_exact_nan init h = true -> c < 12 ->
    training (run all_on fam_exact_nan init h) = false ->
    predict_out all_on fam_exact_nan (run all_on fam_exact_nan init h) c =
    predict_out all_on fam_exact_nan (fresh (pv (run all_on fam_exact_nan init h)) (dv (run all_on fam_exact_nan init h)) false) c.
Proof. intros h c. exact (history_independence_gen fam_exact_nan wf_exact_nan h c). Qed.
Print Assumptions c03_history_independence_exact_nan_targets.

(* KISS-GP on a data-following grid (GridInterpolationKernel without grid_bounds): calls whose inputs span
   different ranges (test inputs inside / outside the training range) replace the grid; the cached K_UU is
   discarded with it *)
Theorem c03_history_independence_kiss_data_following_grid :
  forall h c, admissible all_on fam_kiss_dyn init h = true -> c < 12 ->
    training (run all_on fam_kiss_dyn init h) = false ->
    predict_out all_on fam_kiss_dyn (run all_on fam_kiss_dyn init h) c =
    predict_out all_on fam_kiss_dyn (fresh (pv (run all_on fam_kiss_dyn init h)) (dv (run all_on fam_kiss_dyn init h)) false) c.
Proof. intros h c. exact (history_independence_gen fam_kiss_dyn wf_kiss_dyn h c). Qed.
Print Assumptions c03_history_independence_kiss_data_following_grid.

(* the grid replacement is necessary (the machine without the guard - K_UU kept when the grid is laid out anew -
   consults a K_UU computed for another range after Predict(inside), Predict(outside), in either order, also
   across set_train_data; with it the same history is harmless); a history through all three NaN policies of
   the NaN-target family ends with one mean_cache entry per policy; both families are well formed *)
Theorem c03_grid_replacement_refutes_and_nan_example :
  differs (points_without 12) fam_kiss_dyn [OPredict 0] 3 = true /\
  differs (points_without 12) fam_kiss_dyn [OPredict 3] 1 = true /\
  differs (points_without 12) fam_kiss_dyn [OPredict 3; OSetData] 0 = true /\
  differs all_on fam_kiss_dyn [OPredict 3; OSetData] 0 = false /\
  admissible all_on fam_exact_nan init ex_hist_nan = true /\
  map (fun e => (e_slot e, e_key e)) (cch (run all_on fam_exact_nan init ex_hist_nan)) = [(MEAN, 2); (MEAN, 0); (MEAN, 1); (STRAT, 0)] /\
  wf_family fam_exact_nan = true /\ wf_family fam_kiss_dyn = true.
Proof. exact grid_and_nan_examples. Qed.
Print Assumptions c03_grid_replacement_refutes_and_nan_example.

(* EVERY observable operation of every admissible history - posterior predictions in either mode,
   prior-mode calls, non-detached predictions + backward - reports exactly what the freshly
   constructed object holding the same versions (in the same mode) reports.  [indep] is the flag the
   harness reads for every operation; [trace] lists it per operation.  Side conditions on the
   family (decidable, met by the five concrete families): training-mode consultations are of
   slots the training-mode call has just cleared, own their tag, and are pairwise distinct. *)
Theorem c03_every_operation_independent :
  forall fam s o, wf_family fam = true ->
    forallb (train_use_ok fam) (f_train_uses fam) = true -> uses_nodup (f_train_uses fam) = true ->
    Inv fam s -> op_ok fam s o = true -> indep all_on fam s o = true.
Proof. intros fam s o H Ht Hn. exact (indep_always fam H Ht Hn s o). Qed.
Print Assumptions c03_every_operation_independent.

Theorem c03_trace_independent :
  forall fam h, wf_family fam = true ->
    forallb (train_use_ok fam) (f_train_uses fam) = true -> uses_nodup (f_train_uses fam) = true ->
    admissible all_on fam init h = true ->
    Forall (fun r => snd (fst r) = true) (trace all_on fam init h).
Proof. intros fam h H Ht Hn. exact (trace_indep fam H Ht Hn h init (Inv_init fam)). Qed.
Print Assumptions c03_trace_independent.

(* under the real code no history makes the object lose its training data / likelihood
   (get_fantasy_model restores them when the copy raises) *)
Theorem c03_source_never_lost :
  forall fam h, wf_family fam = true -> admissible all_on fam init h = true ->
    lost (run all_on fam init h) = false.
Proof. intros fam h H. exact (never_lost fam H h). Qed.
Print Assumptions c03_source_never_lost.

(* every invalidation point is necessary: the machine with that point removed has a short
   admissible history after which the prediction differs from the fresh object's
   (2 train(False) clears; 3 load_state_dict; 4 set_train_data; 6 variational __call__ in training
   mode; 7 kernel._clear_cache; 8 ExactGP._clear_cache; 9 _VariationalStrategy._clear_cache;
   10 KISS-GP pair re-keying; 11 Module.train override deleted;
   12 the staleness guards (= the code before the fixes "SGPR prediction strategy is rebuilt when
   sgpr_diagonal_correction changes" / "variational strategy drops the cached Cholesky factor
   when variational_cholesky_jitter changes"): Predict(default) then Predict(setting) or the
   reverse, SGPR and variational;
   13 get_fantasy_model without the finally block (before "get_fantasy_model restores the source
   model when the copy raises"), on the KISS-GP family as it was while the cached grid-kernel
   matrix was still deep-copied with the model ([fam_kiss_cached_copy]): non-detached prediction
   + backward, then a fantasy model -> the copy raises and the source predicts the prior; with
   the finally block the same history is harmless; on the current KISS-GP family (the cached
   matrix is not copied) the fantasy model simply succeeds;
   5 backward hook: observable is the status of the next non-detached backward;
   14 the shape guard of VariationalStrategy.forward: a prediction on 3 x n x d inputs, then one on
   n x d inputs (or any two different batch shapes, also with a prior-mode call in between) consults
   the factor computed for the other batch shape; the exact families have no cache that depends on
   the input batch shape, and the KISS-GP re-keying point 10 does not stand in for it).
   Point 1 (clearing on train(True)) alone is masked by point 2 for predictions, which is why 11
   removes both. *)
Theorem c03_dropped_invalidation_refutes :
  differs (points_without 2) (fam_var true) [OTrain; OStep; OEval] 0 = true /\
  differs (points_without 3) fam_exact [OPredict 0; OLoad] 0 = true /\
  differs (points_without 4) fam_exact [OPredict 0; OSetData] 0 = true /\
  differs (points_without 6) (fam_var true) [OTrain; OStep] 0 = true /\
  differs (points_without 7) fam_sgpr [OPredict 0; OLoad] 0 = true /\
  differs (points_without 8) fam_exact [OPredict 0; OLoad] 0 = true /\
  differs (points_without 9) (fam_var true) [OPredict 0; OLoad] 0 = true /\
  differs (points_without 10) fam_kiss [OPredict 1] 2 = true /\
  differs (points_without 11) fam_exact [OPredict 0; OTrain; OStep; OEval] 0 = true /\
  differs (points_without 12) fam_sgpr [OPredict 0] 3 = true /\
  differs (points_without 12) fam_sgpr [OPredict 3] 0 = true /\
  differs (points_without 12) (fam_var true) [OPredict 0] 3 = true /\
  differs (points_without 12) (fam_var false) [OPredict 3; OPrior] 1 = true /\
  differs (points_without 13) fam_kiss_cached_copy [OBackward; OFantasy] 0 = true /\
  differs all_on fam_kiss_cached_copy [OBackward; OFantasy] 0 = false /\
  fst (snd (step all_on fam_kiss (run all_on fam_kiss init [OBackward]) OFantasy)) = ST_OK /\
  (bwd_status all_on fam_exact [OPredict 2; OBackward] = ST_OK /\
   bwd_status (points_without 5) fam_exact [OPredict 2; OBackward] = ST_ERR) /\
  (differs (points_without 14) (fam_var true) [OPredict 8] 0 = true /\
   differs (points_without 14) (fam_var false) [OPredict 9; OPrior] 5 = true /\
   differs (points_without 14) (fam_var true) [OPredict 0] 4 = true /\
   differs (points_without 14) fam_exact [OPredict 8] 0 = false /\
   differs (points_without 10) (fam_var true) [OPredict 8] 0 = false).
Proof. exact dropped_refutes. Qed.
Print Assumptions c03_dropped_invalidation_refutes.

(* what [differs ... = true] means *)
Theorem c03_differs_meaning :
  forall pts fam h c, differs pts fam h c = true ->
    admissible pts fam init h = true /\ c < f_ncfg fam /\
    predict_out pts fam (run pts fam init h) c <>
    predict_out pts fam (fresh (pv (run pts fam init h)) (dv (run pts fam init h))
                               (training (run pts fam init h))) c.
Proof. exact differs_sound. Qed.
Print Assumptions c03_differs_meaning.

(* non-vacuity: a 12-operation admissible history through every kind of operation, ending in
   eval mode with versions (2, 1) and three live cache entries; histories through the
   settings-changing configurations of SGPR and a variational GP; all families well formed *)
Example ex_c03_history :
  admissible all_on fam_exact init ex_hist = true /\ training (run all_on fam_exact init ex_hist) = false /\
  pv (run all_on fam_exact init ex_hist) = 2 /\ dv (run all_on fam_exact init ex_hist) = 1 /\
  length (cch (run all_on fam_exact init ex_hist)) = 3.
Proof. exact ex_hist_ok. Qed.
Example ex_c03_settings_history :
  admissible all_on fam_sgpr init ex_hist_sgpr = true /\ training (run all_on fam_sgpr init ex_hist_sgpr) = false /\
  sck (run all_on fam_sgpr init ex_hist_sgpr) = 0 /\ length (cch (run all_on fam_sgpr init ex_hist_sgpr)) = 4 /\
  admissible all_on (fam_var true) init ex_hist_var = true /\
  training (run all_on (fam_var true) init ex_hist_var) = false /\
  sck (run all_on (fam_var true) init ex_hist_var) = 1 /\
  length (cch (run all_on (fam_var true) init ex_hist_var)) = 2.
Proof. exact ex_hist_settings_ok. Qed.
(* predictions at all three input batch shapes of a variational GP: one Cholesky entry, keyed by the last shape;
   a call on 3 x n x d inputs under skip_posterior_variances consults the factor keyed 2 *)
Example ex_c03_batch_shapes :
  admissible all_on (fam_var true) init ex_hist_shapes = true /\
  training (run all_on (fam_var true) init ex_hist_shapes) = false /\
  map (fun e => (e_slot e, e_key e)) (cch (run all_on (fam_var true) init ex_hist_shapes)) = [(CHOL, 1); (VDIST, 0)] /\
  map (fun u => (u_slot u, u_key u)) (f_uses (fam_var true) 9) = [(VDIST, 0); (CHOL, 2)].
Proof. exact ex_hist_shapes_ok. Qed.
Example ex_c03_wf : wf_family fam_exact = true /\ wf_family fam_kiss = true /\ wf_family fam_sgpr = true /\
                    wf_family (fam_var true) = true /\ wf_family (fam_var false) = true.
Proof. exact ex_wf_all. Qed.
Example ex_c03_train_uses :
  forall fam, In fam [fam_exact; fam_kiss; fam_sgpr; fam_var true; fam_var false] ->
    forallb (train_use_ok fam) (f_train_uses fam) = true /\ uses_nodup (f_train_uses fam) = true.
Proof. exact ex_train_uses_ok. Qed.
