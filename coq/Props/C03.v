(* C03 — evaluation-mode outputs are history independent (no stale prediction caches).
   Statement file: theorems, [exact lemma], Print Assumptions.  Nothing else.
   Machine: Models/C03_cache.v ([step] with every invalidation point of the code = [all_on]). *)
From Coq Require Import Arith List Bool.
From GPV Require Import Models.C03_cache Proofs.C03_cache.
Import ListNotations.

(* Inv: every entry sits in a slot some _clear_cache owns and, while training = false, carries the
   current (parameter, data) versions under keyed settings.  Holds initially, is preserved by every
   admissible operation, hence holds in every reachable state — for every family descriptor
   passing the decidable check wf_family, for histories of ANY length. *)
Theorem c03_valid_caches_invariant :
  forall fam, wf_family fam = true ->
    Inv fam init /\
    (forall s o, Inv fam s -> op_ok fam s o = true -> op_keyed fam o = true ->
                 Inv fam (fst (step all_on fam s o))) /\
    (forall h, admissible all_on fam init h = true -> keyed_history fam h = true ->
               Inv fam (run all_on fam init h)).
Proof.
  intros fam H. split; [exact (Inv_init fam)|]. split; [exact (Inv_step fam H)|].
  intros h. exact (Inv_run fam H h init (Inv_init fam)).
Qed.
Print Assumptions c03_valid_caches_invariant.

(* after ANY admissible history the next eval-mode prediction consults exactly what a freshly
   constructed object holding the same parameters and data consults *)
Theorem c03_history_independence :
  forall fam h c, wf_family fam = true ->
    admissible all_on fam init h = true -> keyed_history fam h = true ->
    c < f_ncfg fam -> cfg_keyed fam c = true ->
    training (run all_on fam init h) = false ->
    predict_out all_on fam (run all_on fam init h) c =
    predict_out all_on fam (fresh (pv (run all_on fam init h)) (dv (run all_on fam init h)) false) c.
Proof. intros fam h c H. exact (history_independence_gen fam H h c). Qed.
Print Assumptions c03_history_independence.

(* exact GP / default strategy and KISS-GP: every configuration is keyed, no side condition *)
Theorem c03_history_independence_exact :
  forall h c, admissible all_on fam_exact init h = true -> c < 4 ->
    training (run all_on fam_exact init h) = false ->
    predict_out all_on fam_exact (run all_on fam_exact init h) c =
    predict_out all_on fam_exact (fresh (pv (run all_on fam_exact init h)) (dv (run all_on fam_exact init h)) false) c.
Proof.
  intros h c Ha Hc Ht.
  exact (history_independence_gen fam_exact wf_exact h c Ha (keyed_history_all _ h all_keyed_exact) Hc
           (all_keyed_exact c) Ht).
Qed.
Print Assumptions c03_history_independence_exact.

Theorem c03_history_independence_kiss :
  forall h c, admissible all_on fam_kiss init h = true -> c < 4 ->
    training (run all_on fam_kiss init h) = false ->
    predict_out all_on fam_kiss (run all_on fam_kiss init h) c =
    predict_out all_on fam_kiss (fresh (pv (run all_on fam_kiss init h)) (dv (run all_on fam_kiss init h)) false) c.
Proof.
  intros h c Ha Hc Ht.
  exact (history_independence_gen fam_kiss wf_kiss h c Ha (keyed_history_all _ h all_keyed_kiss) Hc
           (all_keyed_kiss c) Ht).
Qed.
Print Assumptions c03_history_independence_kiss.

(* SGPR and variational GPs: the full statement (all four configurations) is REFUTED by the
   faithful model, because sgpr_diagonal_correction resp. variational_cholesky_jitter change cached
   content without being part of a cache key; it holds on histories that keep those settings at
   their default (hypotheses keyed_history / cfg_keyed). *)
Theorem c03_history_independence_sgpr_partial :
  forall h c, admissible all_on fam_sgpr init h = true -> keyed_history fam_sgpr h = true ->
    c < 4 -> cfg_keyed fam_sgpr c = true -> training (run all_on fam_sgpr init h) = false ->
    predict_out all_on fam_sgpr (run all_on fam_sgpr init h) c =
    predict_out all_on fam_sgpr (fresh (pv (run all_on fam_sgpr init h)) (dv (run all_on fam_sgpr init h)) false) c.
Proof. intros h c. exact (history_independence_gen fam_sgpr wf_sgpr h c). Qed.
Print Assumptions c03_history_independence_sgpr_partial.

Theorem c03_history_independence_sgpr_refuted :
  exists h c, admissible all_on fam_sgpr init h = true /\ c < f_ncfg fam_sgpr /\
    training (run all_on fam_sgpr init h) = false /\
    predict_out all_on fam_sgpr (run all_on fam_sgpr init h) c <>
    predict_out all_on fam_sgpr (fresh (pv (run all_on fam_sgpr init h)) (dv (run all_on fam_sgpr init h)) false) c.
Proof. exact sgpr_unkeyed_refuted. Qed.
Print Assumptions c03_history_independence_sgpr_refuted.

Theorem c03_history_independence_variational_partial :
  forall b h c, admissible all_on (fam_var b) init h = true -> keyed_history (fam_var b) h = true ->
    c < 4 -> cfg_keyed (fam_var b) c = true -> training (run all_on (fam_var b) init h) = false ->
    predict_out all_on (fam_var b) (run all_on (fam_var b) init h) c =
    predict_out all_on (fam_var b)
      (fresh (pv (run all_on (fam_var b) init h)) (dv (run all_on (fam_var b) init h)) false) c.
Proof. intros b h c. exact (history_independence_gen (fam_var b) (wf_var b) h c). Qed.
Print Assumptions c03_history_independence_variational_partial.

Theorem c03_history_independence_variational_refuted :
  exists h c, admissible all_on (fam_var true) init h = true /\ c < f_ncfg (fam_var true) /\
    training (run all_on (fam_var true) init h) = false /\
    predict_out all_on (fam_var true) (run all_on (fam_var true) init h) c <>
    predict_out all_on (fam_var true)
      (fresh (pv (run all_on (fam_var true) init h)) (dv (run all_on (fam_var true) init h)) false) c.
Proof. exact var_unkeyed_refuted. Qed.
Print Assumptions c03_history_independence_variational_refuted.

(* every invalidation point is necessary: the machine with that point removed has a short
   admissible history after which the prediction differs from the fresh object's
   (2 train(False) clears; 3 load_state_dict; 4 set_train_data; 6 variational __call__ in training
   mode; 7 kernel._clear_cache; 8 ExactGP._clear_cache; 9 _VariationalStrategy._clear_cache;
   10 KISS-GP pair re-keying; 11 Module.train override deleted; 5 backward hook: observable is the
   status of the next non-detached backward).  Point 1 (clearing on train(True)) alone is masked
   by point 2 for predictions, which is why 11 removes both. *)
Theorem c03_dropped_invalidation_refutes :
  differs (points_without 2) (fam_var true) [OTrain; OStep; OEval] 0 = true /\
  differs (points_without 3) fam_exact [OPredict 0; OLoad] 0 = true /\
  differs (points_without 4) fam_exact [OPredict 0; OSetData] 0 = true /\
  differs (points_without 6) (fam_var true) [OTrain; OStep] 0 = true /\
  differs (points_without 7) fam_sgpr [OPredict 0; OLoad] 0 = true /\
  differs (points_without 8) fam_exact [OPredict 0; OLoad] 0 = true /\
  differs (points_without 9) (fam_var true) [OPredict 0; OLoad] 0 = true /\
  differs (points_without 10) fam_kiss [OPredict 1] 2 = true /\
  differs (points_without 11) fam_exact [OPredict 0; OTrain; OStep; OEval] 0 = true /\
  (bwd_status all_on fam_exact [OPredict 2; OBackward] = ST_OK /\
   bwd_status (points_without 5) fam_exact [OPredict 2; OBackward] = ST_ERR).
Proof. exact dropped_refutes. Qed.
Print Assumptions c03_dropped_invalidation_refutes.

(* what [differs ... = true] means *)
Theorem c03_differs_meaning :
  forall pts fam h c, differs pts fam h c = true ->
    admissible pts fam init h = true /\ keyed_history fam h = true /\ cfg_keyed fam c = true /\
    predict_out pts fam (run pts fam init h) c <>
    predict_out pts fam (fresh (pv (run pts fam init h)) (dv (run pts fam init h))
                               (training (run pts fam init h))) c.
Proof. exact differs_sound. Qed.
Print Assumptions c03_differs_meaning.

(* non-vacuity: a 12-operation admissible history through every kind of operation, ending in
   eval mode with versions (2, 1) and three live cache entries *)
Example ex_c03_history :
  admissible all_on fam_exact init ex_hist = true /\ training (run all_on fam_exact init ex_hist) = false /\
  pv (run all_on fam_exact init ex_hist) = 2 /\ dv (run all_on fam_exact init ex_hist) = 1 /\
  length (cch (run all_on fam_exact init ex_hist)) = 3.
Proof. exact ex_hist_ok. Qed.
Example ex_c03_wf : wf_family fam_exact = true /\ wf_family fam_kiss = true /\ wf_family fam_sgpr = true /\
                    wf_family (fam_var true) = true /\ wf_family (fam_var false) = true.
Proof. repeat split; reflexivity. Qed.
