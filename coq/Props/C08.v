(* C08 — Batch mode equals independent replicas (no cross-talk between batch elements).
   Statement file: theorems, [exact lemma], Print Assumptions.  Nothing else.
   Vocabulary (Models/C08_shape.v): shapes / multi-indices are [list nat] (outermost first);
   [broadcast_shapes] as torch (right-aligned, size-1 stretch, None on failure); [ravel] /
   [unravel] row-major; [bproj s b] = index of the unexpanded operand of shape s read by element
   b of the broadcast result; [batched_tab] = the output tensor (storage order) of an operation
   applied to parameter slice [bproj sp b] and data slice [bproj sd b]. *)
From Coq Require Import Arith List Lia.
Import ListNotations.
From GPV Require Import Base.LinAlg Models.C08_shape Proofs.C08_shape Models.C08_diag Proofs.C08_diag Models.C08_prior Proofs.C08_prior Models.C08_index Proofs.C08_index Models.C08_call Proofs.C08_call.

(* row-major ravel/unravel round trips, all ranks, all shapes *)
Theorem c08_ravel_unravel :
  forall s k, k < numel s -> valid s (unravel s k) /\ ravel s (unravel s k) = k.
Proof. intros s k H. split; [exact (unravel_valid s k H)|exact (ravel_unravel s k H)]. Qed.
Print Assumptions c08_ravel_unravel.

Theorem c08_unravel_ravel :
  forall s i, valid s i -> ravel s i < numel s /\ unravel s (ravel s i) = i.
Proof. intros s i H. split; [exact (ravel_lt s i H)|exact (unravel_ravel s i H)]. Qed.
Print Assumptions c08_unravel_ravel.

(* the slices handed out for element b are valid indices of the two operands *)
Theorem c08_bproj_valid :
  forall sp sd t b, broadcast_shapes sp sd = Some t -> valid t b ->
    valid sp (bproj sp b) /\ valid sd (bproj sd b).
Proof. exact bproj_valid. Qed.
Print Assumptions c08_bproj_valid.

(* bproj agrees with tensor.expand (a stride-0 view): element b of the expanded operand sits at
   storage offset ravel (bproj s b) of the unexpanded one *)
Theorem c08_bproj_is_expand :
  forall s b, ravel s (bproj s b) = expand_offset s b.
Proof. exact bproj_is_expand. Qed.
Print Assumptions c08_bproj_is_expand.

(* an operand that already has the broadcast shape is read at b itself *)
Theorem c08_bproj_id : forall s b, valid s b -> bproj s b = b.
Proof. exact bproj_id. Qed.
Print Assumptions c08_bproj_id.

Theorem c08_broadcast_comm : forall a b, broadcast_shapes a b = broadcast_shapes b a.
Proof. exact broadcast_shapes_comm. Qed.
Print Assumptions c08_broadcast_comm.

(* element b of the batched output is the operation on slice bproj sp b of the parameters and
   slice bproj sd b of the data: "that many independent copies" *)
Theorem c08_batched_is_replica :
  forall (P D O : Type) sp sd t (op : P -> D -> O) param data out b,
    broadcast_shapes sp sd = Some t -> valid t b ->
    batched_tab sp sd op param data = Some out ->
    nth_error out (ravel t b) = Some (op (param (bproj sp b)) (data (bproj sd b))).
Proof. intros P D O. exact (@batched_tab_entry P D O). Qed.
Print Assumptions c08_batched_is_replica.

(* no_cross_talk: element b depends only on those two slices *)
Theorem c08_no_cross_talk :
  forall (P D O : Type) sp sd t (op : P -> D -> O) param param' data data' out out' b,
    broadcast_shapes sp sd = Some t -> valid t b ->
    batched_tab sp sd op param data = Some out ->
    batched_tab sp sd op param' data' = Some out' ->
    param (bproj sp b) = param' (bproj sp b) ->
    data (bproj sd b) = data' (bproj sd b) ->
    nth_error out (ravel t b) = nth_error out' (ravel t b).
Proof. intros P D O. exact (@no_cross_talk P D O). Qed.
Print Assumptions c08_no_cross_talk.

(* ... so overwriting any other parameter slice j and any other data slice i leaves it unchanged *)
Theorem c08_no_cross_talk_update :
  forall (P D O : Type) sp sd t (op : P -> D -> O) param data out out' b j v i w,
    broadcast_shapes sp sd = Some t -> valid t b ->
    j <> bproj sp b -> i <> bproj sd b ->
    batched_tab sp sd op param data = Some out ->
    batched_tab sp sd op (upd param j v) (upd data i w) = Some out' ->
    nth_error out (ravel t b) = nth_error out' (ravel t b).
Proof. intros P D O. exact (@no_cross_talk_update P D O). Qed.
Print Assumptions c08_no_cross_talk_update.

(* IndependentModelList returns exactly its members' outputs *)
Theorem c08_model_list :
  forall (A B : Type) (ms : list (A -> B)) (xs : list A) i,
    nth_error (model_list ms xs) i =
    match nth_error ms i, nth_error xs i with
    | Some m, Some x => Some (m x)
    | _, _ => None
    end.
Proof. intros A B. exact (@model_list_nth A B). Qed.
Print Assumptions c08_model_list.

(* SumMarginalLogLikelihood = mean of the members' values *)
Theorem c08_sum_mll_is_mean :
  forall (K : Fld) (A : Type) (mlls : list (A -> car)) (args : list A) (cnt : car),
    cnt <> f0 -> fmul (sum_mll mlls args cnt) cnt = total (model_list mlls args).
Proof. intros K A. exact (@sum_mll_is_mean K A). Qed.
Print Assumptions c08_sum_mll_is_mean.

(* rank of the broadcast batch *)
Theorem c08_broadcast_length :
  forall sp sd t, broadcast_shapes sp sd = Some t -> length t = Nat.max (length sp) (length sd).
Proof. exact broadcast_length. Qed.
Print Assumptions c08_broadcast_length.

(* ---- Kernel.__call__(diag=True): shape of the result (Models/C08_diag.v).  For EVERY broadcast batch t and
   number of points n, whatever forward returned (the diagonal t ++ [n] or the full t ++ [n; n]), the call
   returns shape t ++ [n]: the current test (/repo a464a56) decides correctly for all shapes *)
Theorem c08_kernel_diag_shape :
  forall t n, call_diag_shape_fixed (t ++ [n]) t n = t ++ [n] /\
              call_diag_shape_fixed (t ++ [n; n]) t n = t ++ [n].
Proof. exact call_diag_shape_fixed_ok. Qed.
Print Assumptions c08_kernel_diag_shape.
Theorem c08_kernel_diag_fixed_test :
  forall t n, takes_diagonal_fixed (t ++ [n]) t n = false /\ takes_diagonal_fixed (t ++ [n; n]) t n = true.
Proof. exact diag_heuristic_fixed. Qed.
Print Assumptions c08_kernel_diag_fixed_test.
(* why the fix was necessary (finding C08-kernel-diag-batch-rank-heuristic, found by this check on /repo 0d5c998,
   now fixed): the OLD test `res.dim() == x.dim()` takes a correct diagonal for a full matrix ... *)
Theorem c08_kernel_diag_old_test_misfires :
  exists sp sd t n d, broadcast_shapes sp sd = Some t /\
    call_diag_shape (t ++ [n]) (sd ++ [n; d]) n <> t ++ [n].
Proof. exact diag_heuristic_refuted. Qed.
Print Assumptions c08_kernel_diag_old_test_misfires.
(* ... exactly on this input class (the class the driver's diag_n3 outputs exercise and label): the broadcast batch
   has one dimension more than the inputs' batch and ends in n ... *)
Theorem c08_kernel_diag_collision_class :
  forall t sd n d,
    takes_diagonal (t ++ [n]) (sd ++ [n; d]) n = true <->
    length t = S (length sd) /\ exists t', t = t' ++ [n].
Proof. exact takes_diagonal_on_diag_iff. Qed.
Print Assumptions c08_kernel_diag_collision_class.
(* ... and was right whenever the kernel batch rank did not exceed the input batch rank *)
Theorem c08_kernel_diag_old_test_partial :
  forall sp sd t n d, broadcast_shapes sp sd = Some t -> length sp <= length sd ->
    call_diag_shape (t ++ [n]) (sd ++ [n; d]) n = t ++ [n] /\
    call_diag_shape (t ++ [n; n]) (sd ++ [n; d]) n = t ++ [n].
Proof. exact call_diag_shape_partial. Qed.
Print Assumptions c08_kernel_diag_old_test_partial.

(* ---- batch shape of the MultitaskGaussianLikelihood noise covariance: the current code (/repo e40f817) yields the
   broadcast batch for all (likelihood batch, data batch) pairs *)
Theorem c08_multitask_noise_batch :
  forall sp sd, mt_noise_batch_fixed sp sd = broadcast_shapes sp sd.
Proof. exact mt_noise_batch_fixed_ok. Qed.
Print Assumptions c08_multitask_noise_batch.
(* Tensor.expand of a batch sp to a batch sd succeeds exactly when the broadcast batch IS sd *)
Theorem c08_expand_iff_broadcast_is_target :
  forall sp sd, expands_to sp sd = true <-> broadcast_shapes sp sd = Some sd.
Proof. exact expands_to_iff. Qed.
Print Assumptions c08_expand_iff_broadcast_is_target.
(* ---- ConstantKernel.forward still expands its constant to the INPUTS' batch ([constant_kernel_batch]; the multitask
   likelihood did the same up to /repo 0d5c998).  Full statement wanted: constant_kernel_batch sp sd =
   broadcast_shapes sp sd for all sp sd.  Refuted (recorded finding C08-constant-kernel-param-batch; replayed on /repo
   by the driver's kernel:constant family): *)
Theorem c08_constant_kernel_batch_refuted :
  exists sp sd t, broadcast_shapes sp sd = Some t /\ constant_kernel_batch sp sd = None.
Proof. exact mt_noise_batch_refuted. Qed.
Print Assumptions c08_constant_kernel_batch_refuted.
(* holds on the complement (kernel batch expandable to the input batch); never a WRONG shape; and the failing class is
   exactly "broadcast batch <> input batch" (the class the driver keys the finding by) *)
Theorem c08_constant_kernel_batch_partial :
  forall sp sd, expands_to sp sd = true -> constant_kernel_batch sp sd = broadcast_shapes sp sd.
Proof. exact mt_noise_batch_partial. Qed.
Print Assumptions c08_constant_kernel_batch_partial.
Theorem c08_constant_kernel_batch_sound :
  forall sp sd t, constant_kernel_batch sp sd = Some t -> broadcast_shapes sp sd = Some t.
Proof. exact mt_noise_batch_sound. Qed.
Print Assumptions c08_constant_kernel_batch_sound.
Theorem c08_constant_kernel_batch_fails_iff :
  forall sp sd t, broadcast_shapes sp sd = Some t -> (constant_kernel_batch sp sd = None <-> t <> sd).
Proof. exact mt_noise_batch_fails_iff. Qed.
Print Assumptions c08_constant_kernel_batch_fails_iff.

(* ---- hyperparameter priors in the marginal log likelihoods (Models/C08_prior.v): a prior term has shape sp ++ ev
   (sp = batch shape of the owner's parameters, ev = event dims of the value); what is added to the objective must have
   shape sp (then element b receives slice [bproj sp b], c08_bproj_is_expand).
   Owner with a batch_shape attribute = sp: exactly the event dims are summed, for every rank of the objective *)
Theorem c08_prior_term_known_owner :
  forall sp ev r, prior_reduced_shape (Some sp) r (sp ++ ev) = sp.
Proof. exact prior_known_owner. Qed.
Print Assumptions c08_prior_term_known_owner.
(* Owner WITHOUT a batch_shape attribute (likelihood, LinearMean, the model): the code guesses "rank of the objective";
   right exactly when the parameters have the full batch rank or the value has no event dims *)
Theorem c08_prior_term_unknown_owner_iff :
  forall sp ev r, length sp <= r ->
    (prior_reduced_shape None r (sp ++ ev) = sp <-> (r = length sp \/ ev = [])).
Proof. exact prior_unknown_owner_iff. Qed.
Print Assumptions c08_prior_term_unknown_owner_iff.
(* ... hence refuted as stated for all broadcast patterns (finding C08-exact-mll-prior-owner-without-batch-shape):
   non-batched LinearMean weights [2;1] under a data batch [2] are kept as if they were two batch elements *)
Theorem c08_prior_term_unknown_owner_refuted :
  exists sp sd t ev, broadcast_shapes sp sd = Some t /\ prior_reduced_shape None (length t) (sp ++ ev) <> sp
                     /\ prior_reduced_shape None (length t) (sp ++ ev) = t.
Proof. exact prior_unknown_owner_refuted. Qed.
Print Assumptions c08_prior_term_unknown_owner_refuted.
(* treating a missing batch_shape as the empty batch shape keeps nothing, and summing the whole term (the approximate
   MLLs, finding C08-approximate-mll-prior-summed-over-batch) is wrong for every non-empty parameter batch *)
Theorem c08_prior_term_empty_owner_keeps_nothing :
  forall term r, prior_reduced_shape (Some []) r term = [].
Proof. exact prior_empty_owner. Qed.
Print Assumptions c08_prior_term_empty_owner_keeps_nothing.
Theorem c08_prior_term_sum_all_refuted :
  forall sp ev, sp <> [] -> approx_prior_reduced_shape (sp ++ ev) <> sp.
Proof. exact prior_sum_all_wrong. Qed.
Print Assumptions c08_prior_term_sum_all_refuted.
(* the input-class bit the driver keys the finding with *)
Theorem c08_param_rank_short_spec :
  forall sp sd t, broadcast_shapes sp sd = Some t -> (param_rank_short sp t = false <-> length t = length sp).
Proof. exact param_rank_short_spec. Qed.
Print Assumptions c08_param_rank_short_spec.

(* ---- element b obtained THROUGH the library's indexing of a batched lazy object (Models/C08_index.v): X[i] for a
   partial batch index i.  Element b' of X[i] is the replica of element i ++ b' -- every rank, every broadcast
   pattern, every prefix index (indexing inputs AND kernel parameters, both brought to the broadcast batch) *)
Theorem c08_partial_index_is_replica :
  forall (P D O : Type) sp sd t (op : P -> D -> O) param data i b',
    valid t (i ++ b') ->
    lazy_index sp sd t op param data i b' = batched sp sd op param data (i ++ b').
Proof. intros P D O. exact (@lazy_index_is_replica P D O). Qed.
Print Assumptions c08_partial_index_is_replica.

Theorem c08_full_index_is_replica :
  forall (P D O : Type) sp sd t (op : P -> D -> O) param data b,
    valid t b -> lazy_index sp sd t op param data b [] = batched sp sd op param data b.
Proof. intros P D O. exact (@lazy_index_full P D O). Qed.
Print Assumptions c08_full_index_is_replica.

(* indexing the inputs but NOT the kernel parameters (the shortcut taken when some batch index is a full slice): wrong
   batch shape and wrong pairing of parameter and data slices for parameter batch rank 2 *)
Theorem c08_index_data_only_shape_refuted :
  exists sp sd t i, broadcast_shapes sp sd = Some t /\ length i < length t /\
    lazy_index_data_only_shape sp t i <> Some (lazy_index_shape t i).
Proof. exact lazy_index_data_only_shape_refuted. Qed.
Print Assumptions c08_index_data_only_shape_refuted.

Theorem c08_index_data_only_value_refuted :
  exists sp sd t (op : index -> index -> index * index) param data i b',
    broadcast_shapes sp sd = Some t /\ valid t (i ++ b') /\
    lazy_index_data_only sp sd t op param data i b' <> batched sp sd op param data (i ++ b').
Proof. exact lazy_index_data_only_value_refuted. Qed.
Print Assumptions c08_index_data_only_value_refuted.

(* ---- list wrappers called with keyword arguments: member k receives its own positional argument and the SAME
   keyword arguments (and entry k of a per-member noise list) *)
Theorem c08_model_list_kwargs :
  forall (A KW B : Type) (ms : list (A -> KW -> B)) (xs : list A) (kw : KW) k,
    nth_error (model_list_kw ms xs kw) k =
    match nth_error ms k, nth_error xs k with
    | Some m, Some x => Some (m x kw)
    | _, _ => None
    end.
Proof. intros A KW B. exact (@model_list_kw_nth A KW B). Qed.
Print Assumptions c08_model_list_kwargs.

Theorem c08_model_list_kwargs_noise :
  forall (A KW B NZ : Type) (ms : list (A -> KW -> NZ -> B)) (xs : list A) (kw : KW) (nz : list NZ) k,
    length ms = length xs -> length xs = length nz ->
    nth_error (model_list_kw_noise ms xs kw nz) k =
    match nth_error ms k, nth_error xs k, nth_error nz k with
    | Some m, Some x, Some n => Some (m x kw n)
    | _, _, _ => None
    end.
Proof. intros A KW B NZ. exact (@model_list_kw_noise_nth A KW B NZ). Qed.
Print Assumptions c08_model_list_kwargs_noise.

(* a wrapper that drops the keyword arguments is not "exactly its members' outputs" *)
Theorem c08_model_list_kwargs_dropped_refuted :
  exists (ms : list (nat -> nat -> nat)) xs dflt kw,
    model_list_kw_dropped dflt ms xs kw <> model_list_kw ms xs kw.
Proof. exact model_list_kw_dropped_refuted. Qed.
Print Assumptions c08_model_list_kwargs_dropped_refuted.

(* ---- THREE OPERANDS: an exact GP posterior has hyperparameters (batch shape sp), training data (str) and test
   inputs (ste), each with its own batch shape (Models/C08_call.v).  Projecting an element index onto an operand
   through the broadcast shape of that operand with ANY other shape is projecting onto the operand directly:
   all ranks, all shapes, all indices (no validity hypothesis needed) *)
Theorem c08_bproj_compose_l :
  forall s s' t1 b, broadcast_shapes s s' = Some t1 -> bproj s (bproj t1 b) = bproj s b.
Proof. exact bproj_compose_l. Qed.
Print Assumptions c08_bproj_compose_l.
Theorem c08_bproj_compose_r :
  forall s s' t1 b, broadcast_shapes s s' = Some t1 -> bproj s' (bproj t1 b) = bproj s' b.
Proof. exact bproj_compose_r. Qed.
Print Assumptions c08_bproj_compose_r.

(* hence the posterior computed in two stages (train and test combined on their own broadcast shape t1, the result
   combined with the hyperparameters) has, at every element b, the replica built from the three slices
   bproj sp b, bproj str b, bproj ste b - for ANY operation, any operand contents *)
Theorem c08_three_operand_replica :
  forall (P D1 D2 O : Type) sp str ste t1 (op : P -> D1 -> D2 -> O) param train test b,
    broadcast_shapes str ste = Some t1 ->
    batched3_staged sp str ste t1 op param train test b
    = op (param (bproj sp b)) (train (bproj str b)) (test (bproj ste b)).
Proof. intros. apply batched3_staged_eq. assumption. Qed.
Print Assumptions c08_three_operand_replica.

(* ExactGP.__call__ concatenates training and test inputs: as coded (expand iff the batch SHAPES differ) the two
   operands of torch.cat have the broadcast batch shape on EVERY broadcastable pair, equal-rank pairs that differ
   in size-1 dimensions included; on a non-broadcastable pair no operands are produced *)
Theorem c08_exactgp_cat_every_broadcastable_pair :
  forall str ste t, broadcast_shapes str ste = Some t ->
    cat_operands str ste = Some (t, t) /\ cat_ok (t, t) = true.
Proof. exact cat_operands_ok. Qed.
Print Assumptions c08_exactgp_cat_every_broadcastable_pair.
Theorem c08_exactgp_cat_not_broadcastable :
  forall str ste, broadcast_shapes str ste = None -> str <> ste /\ cat_operands str ste = None.
Proof. exact cat_operands_none. Qed.
Print Assumptions c08_exactgp_cat_not_broadcastable.

(* expanding only when the NUMBER of batch dimensions differs (a reading the code must not have) breaks torch.cat on
   a broadcastable pair of equal rank (train [3], test [1]) ... *)
Theorem c08_exactgp_cat_rank_test_refuted :
  exists str ste t ab, broadcast_shapes str ste = Some t /\ length str = length ste /\
    cat_operands_rank_test str ste = Some ab /\ cat_ok ab = false.
Proof. exact cat_rank_test_refuted. Qed.
Print Assumptions c08_exactgp_cat_rank_test_refuted.
(* ... and is right exactly on the pairs where equal rank implies equal shape *)
Theorem c08_exactgp_cat_rank_test_iff :
  forall str ste t, broadcast_shapes str ste = Some t ->
    ((exists ab, cat_operands_rank_test str ste = Some ab /\ cat_ok ab = true)
     <-> (length str = length ste -> str = ste)).
Proof. exact cat_rank_test_ok_iff. Qed.
Print Assumptions c08_exactgp_cat_rank_test_iff.

(* non-vacuity: train batch [2;1], test batch [1;3] (equal rank, stretched on both sides), hyperparameters [3] *)
Example ex_c08_three_operands :
  broadcast_shapes [2; 1] [1; 3] = Some [2; 3] /\ broadcast3 [3] [2; 1] [1; 3] = Some [2; 3] /\
  bproj [2; 1] [1; 2] = [1; 0] /\ bproj [1; 3] [1; 2] = [0; 2] /\ bproj [3] [1; 2] = [2] /\
  cat_operands [2; 1] [1; 3] = Some ([2; 3], [2; 3]).
Proof. cbv. repeat split. Qed.
Print Assumptions ex_c08_three_operands.

(* non-vacuity of the partial-index hypotheses *)
Example ex_c08_partial_index : valid [2; 3] ([1] ++ [2]) /\ lazy_index_shape [2; 3] [1] = [3].
Proof. split; [cbn; lia|reflexivity]. Qed.
Print Assumptions ex_c08_partial_index.

(* non-vacuity: parameters of batch shape [2;1] against data of batch shape [3] *)
Example ex_c08_broadcast :
  broadcast_shapes [2; 1] [3] = Some [2; 3] /\ valid [2; 3] [1; 2] /\
  bproj [2; 1] [1; 2] = [1; 0] /\ bproj [3] [1; 2] = [2].
Proof. cbv. repeat split; auto with arith. Qed.
Print Assumptions ex_c08_broadcast.
(* non-vacuity of the hypotheses of the _partial theorems: kernel batch [1] against data batch [3] (rank 1 <= 1);
   likelihood batch [1] expands to data batch [2] *)
Example ex_c08_partial_hyps :
  broadcast_shapes [1] [3] = Some [3] /\ length [1] <= length [3] /\ expands_to [1] [2] = true /\
  constant_kernel_batch [1] [2] = Some [2].
Proof. cbv. repeat split; auto with arith. Qed.
