(* C10 — MultivariateNormal is the distribution it claims to be.
   Statement file.  A Gaussian is its (mean, covariance) pair (DESIGN section 7); "the law of
   A X + b" is (A m + b, A C A^T).  Generic field: holds for Qc (executable) and R. *)
From Coq Require Import Arith ZArith List Bool Reals.
From GPV Require Import Base.LinAlg Base.Exec Base.Expr Base.PySlice Models.C11_mtmvn Models.C10_mvn Proofs.C10_mvn Proofs.C10_kl
  Models.C10_broadcast Proofs.C10_broadcast Base.Det Proofs.C10_det Models.C10_seq Proofs.C10_seq.
Import ListNotations.

(* indexing = marginal: for ANY index function p into the event dimension (slices, index
   vectors, repetition, permutation; all sizes) the code's (mean[p], cov[p][:,p]) is the law of
   S X with S the selection matrix of p *)
Theorem c10_getitem_is_marginal :
  forall (K : Fld) n k (p : nat -> nat) (m C : M),
    (forall i, (i < k)%nat -> (p i < n)%nat) ->
    meq k 1 (affine_mean n (selmat p) mzero m) (getitem_mean p m)
    /\ meq k k (affine_cov n (selmat p) C) (getitem_cov p C).
Proof. intros K. exact (@getitem_is_marginal K). Qed.
Print Assumptions c10_getitem_is_marginal.

Theorem c10_getitem_keeps_symmetry_and_variance :
  forall (K : Fld) k (p : nat -> nat) n (C : M),
    (forall i, (i < k)%nat -> (p i < n)%nat) -> symmetric n C ->
    symmetric k (getitem_cov p C) /\ (forall i, variance (getitem_cov p C) i = variance C (p i)).
Proof.
  intros K k p n C Hp HS. split; [exact (getitem_cov_symmetric k p n C Hp HS)|].
  intros i. exact (getitem_variance p C i).
Qed.
Print Assumptions c10_getitem_keeps_symmetry_and_variance.

(* which positions: the index normalisation of __getitem__ hands the event dimension exactly
   torch's positions of the last component (all dims, all ints / slices / index vectors) *)
Theorem c10_getitem_last_component :
  forall dim n (b : list pyidx) x, (Z.of_nat (length b) + 1 = dim)%Z -> is_int x = false ->
    mvn_getitem dim n (map EI b ++ [EI x]) =
      match idx_positions n x with Some l => Some ((dim - 1)%Z, Some (1%Z, l)) | None => None end.
Proof. exact mvn_getitem_explicit. Qed.
Print Assumptions c10_getitem_last_component.

Theorem c10_getitem_int_component :
  forall dim n (b : list pyidx) i, (Z.of_nat (length b) + 1 = dim)%Z ->
    mvn_getitem dim n (map EI b ++ [EI (IInt i)]) =
      match norm_index n i with Some k => Some ((dim - 1)%Z, Some (0%Z, [k])) | None => None end.
Proof. exact mvn_getitem_int. Qed.
Print Assumptions c10_getitem_int_component.

Theorem c10_getitem_positions_valid :
  forall dim n idx nb kind l k, (0 <= n)%Z ->
    mvn_getitem dim n idx = Some (nb, Some (kind, l)) -> In k l -> (0 <= k < n)%Z.
Proof. exact mvn_getitem_positions_valid. Qed.
Print Assumptions c10_getitem_positions_valid.

(* affine laws: c X, X + c, X / c, X + Y (independent), add_jitter *)
Theorem c10_scalar_mul_law :
  forall (K : Fld) n c (m C : M),
    meq n 1 (affine_mean n (mscale c mI) mzero m) (mul_mean c m)
    /\ meq n n (affine_cov n (mscale c mI) C) (mul_cov c C).
Proof. intros K. exact (@mul_is_affine K). Qed.
Print Assumptions c10_scalar_mul_law.

Theorem c10_scalar_add_law :
  forall (K : Fld) n c (m C : M),
    meq n 1 (affine_mean n mI (fun _ _ => c) m) (add_scalar_mean c m)
    /\ meq n n (affine_cov n mI C) C.
Proof. intros K. exact (@add_scalar_is_affine K). Qed.
Print Assumptions c10_scalar_add_law.

Theorem c10_sum_of_independent_law :
  forall (K : Fld) n (m1 m2 C1 C2 : M),
    meq n 1 (affine_mean (n + n) (hstack n mI mI) mzero (vstack n m1 m2)) (sum_mean m1 m2)
    /\ meq n n (affine_cov (n + n) (hstack n mI mI) (blk n n C1 mzero mzero C2)) (sum_cov C1 C2).
Proof. intros K. exact (@sum_independent_is_affine K). Qed.
Print Assumptions c10_sum_of_independent_law.

Theorem c10_add_jitter_law :
  forall (K : Fld) eps (C : M),
    (forall i, variance (jitter_cov eps C) i = fadd (variance C i) eps)
    /\ (forall i j, i <> j -> jitter_cov eps C i j = C i j).
Proof. intros K eps C. split; [exact (jitter_variance eps C)|exact (jitter_offdiag eps C)]. Qed.
Print Assumptions c10_add_jitter_law.

(* rsample(base_samples = e) = mean + L e: for ANY n x r root (low rank included) the law is
   (mean, L L^T); second-moment form: E[(Le)_i (Le)_j] = (L L^T)_ij whenever E[e_k e_l] = delta_kl *)
Theorem c10_rsample_law :
  forall (K : Fld) n r (m L : M),
    meq n 1 (rsample_base r m L mzero) m /\ meq n n (affine_cov r L mI) (mmul r L (mT L)).
Proof. intros K. exact (@rsample_law K). Qed.
Print Assumptions c10_rsample_law.

Theorem c10_rsample_second_moment :
  forall (K : Fld) r (L Ee : M) i j,
    (forall k l, (k < r)%nat -> (l < r)%nat -> Ee k l = mI k l) ->
    sum r (fun k => sum r (fun l => fmul (fmul (L i k) (L j l)) (Ee k l))) = mmul r L (mT L) i j.
Proof. intros K. exact (@rsample_second_moment K). Qed.
Print Assumptions c10_rsample_second_moment.

(* KL(p || p) = 0: the rational part tr(P^-1 P) + 0 - n vanishes for every n (the log-det parts
   are the same term twice) *)
Theorem c10_kl_self_zero_partial :
  forall (K : Fld) n (m P Pi : M), is_inverse n P Pi -> kl_rational n m P m Pi = f0.
Proof. intros K. exact (@kl_self_zero K). Qed.
Print Assumptions c10_kl_self_zero_partial.
(* partial on its own (rational part only); KL >= 0 and the equality of the code's Cholesky /
   inv_quad_logdet form with the closed form, log-det part included, are now c10_kl_nonnegative and
   c10_kl_closed_form_is_cholesky_form below (Cholesky-factored covariances). *)

(* KL in the form the code computes it.  kl_mvn_mvn evaluates inv_quad_logdet of q against
   [mean_diffs, root_p], i.e. with P = Lp Lp^T and Q^-1 = Li^T Li (Li = Lq^-1):
   the rational part of the model's KL IS the Cholesky form |Li Lp|_F^2 + |Li (mp - mq)|^2 - n
   (generic field, every n, any factors) *)
Theorem c10_kl_rational_cholesky_form :
  forall (K : Fld) n (mp mq Lp Li : M),
    kl_rational n mp (mmul n Lp (mT Lp)) mq (mmul n (mT Li) Li)
    = fsub (fadd (sum n (fun i => sum n (fun j => fmul (mmul n Li Lp i j) (mmul n Li Lp i j))))
                 (sum n (fun a => fmul (mmul n Li (msub mp mq) a O) (mmul n Li (msub mp mq) a O))))
           (nat_f n).
Proof. intros K. exact (@kl_rational_chol K). Qed.
Print Assumptions c10_kl_rational_cholesky_form.

(* KL >= 0 over R, every n: 2 KL = kl_rational + ln det Q - ln det P, and for W = Li Lp with positive
   diagonal (lower triangular when both are Cholesky factors) ln det P - ln det Q = sum_i ln w_ii^2.
   partial: that last identity (determinant of a triangular factor = product of its diagonal, which is
   how linear_operator evaluates logdet) is taken here as the meaning of the log-det difference; it is
   PROVED in Base/Det.v and the full statement is c10_kl_nonnegative below (name kept: DESIGN refers to it). *)
Theorem c10_kl_nonnegative_partial :
  forall n (mp mq Lp Li : @M RF),
    (forall i, (i < n)%nat -> (0 < @mmul RF n Li Lp i i)%R) ->
    (0 <= @kl_rational RF n mp (@mmul RF n Lp (@mT RF Lp)) mq (@mmul RF n (@mT RF Li) Li)
          - rsum n (fun i => ln (@mmul RF n Li Lp i i * @mmul RF n Li Lp i i)))%R.
Proof. exact kl_model_nonneg. Qed.
Print Assumptions c10_kl_nonnegative_partial.

(* FULL version (Base/Det.v supplies det (T T^T) = (prod diag T)^2 and the triangularity of the inverse of
   a triangular factor): the model's own expression  2 KL(p || q) = kl_rational + ln det Q - ln det P,
   with [det] the Laplace determinant the executable model prints and Qi ANY inverse of Q, is well defined
   (both determinants positive) and non-negative, for every n and all covariances P = Lp Lp^T, Q = Lq Lq^T
   with lower-triangular (Cholesky) factors of positive diagonal. *)
Theorem c10_kl_nonnegative :
  forall n (mp mq P Q Qi Lp Lq Li : @M RF),
    tri_lower n Lp -> tri_lower n Lq ->
    (forall i, (i < n)%nat -> (0 < Lp i i)%R) -> (forall i, (i < n)%nat -> (0 < Lq i i)%R) ->
    is_inverse n Lq Li ->
    meq n n (mmul n Lp (mT Lp)) P -> meq n n (mmul n Lq (mT Lq)) Q -> is_inverse n Q Qi ->
    (0 < det n P)%R /\ (0 < det n Q)%R /\
    (0 <= kl_rational n mp P mq Qi + ln (det n Q) - ln (det n P))%R.
Proof. exact kl_nonneg_det. Qed.
Print Assumptions c10_kl_nonnegative.

(* ... and that expression IS the Cholesky / inv_quad_logdet form kl_mvn_mvn evaluates, log-det part
   included:  kl_rational + ln det Q - ln det P = |W|_F^2 + |d|^2 - n - sum_i ln w_ii^2,
   W = Lq^-1 Lp, d = Lq^-1 (mp - mq)  (every n) *)
Theorem c10_kl_closed_form_is_cholesky_form :
  forall n (mp mq P Q Qi Lp Lq Li : @M RF),
    tri_lower n Lp -> tri_lower n Lq ->
    (forall i, (i < n)%nat -> (0 < Lp i i)%R) -> (forall i, (i < n)%nat -> (0 < Lq i i)%R) ->
    is_inverse n Lq Li ->
    meq n n (mmul n Lp (mT Lp)) P -> meq n n (mmul n Lq (mT Lq)) Q -> is_inverse n Q Qi ->
    (kl_rational n mp P mq Qi + ln (det n Q) - ln (det n P))%R
    = kl2_chol n (@mmul RF n Li Lp) (fun a => @mmul RF n Li (@msub RF mp mq) a O).
Proof. exact kl_closed_eq_cholesky_form. Qed.
Print Assumptions c10_kl_closed_form_is_cholesky_form.

(* the determinant facts behind it, generic field, every n: multiplicativity of the model's determinant and
   the determinant of a Cholesky-factored covariance *)
Theorem c10_det_multiplicative :
  forall (K : Fld) n (A B : M), det n (mmul n A B) = fmul (det n A) (det n B).
Proof. intros K. exact (@det_mmul K). Qed.
Print Assumptions c10_det_multiplicative.

Theorem c10_det_of_cholesky_factored :
  forall (K : Fld) n (T : M), tri_lower n T ->
    det n (mmul n T (mT T)) = fmul (dprod n (fun i => T i i)) (dprod n (fun i => T i i)).
Proof. intros K. exact (@det_tri_gram_lower K). Qed.
Print Assumptions c10_det_of_cholesky_factored.

Example ex_c10_kl_nonnegative_hypotheses :
  tri_lower 2 exR_L /\ (forall i, (i < 2)%nat -> (0 < exR_L i i)%R) /\ is_inverse 2 exR_L exR_Li.
Proof. exact ex_kl_nonneg_hyps. Qed.
Print Assumptions ex_c10_kl_nonnegative_hypotheses.

(* the inequality behind it, for ANY square W with positive diagonal and any d *)
Theorem c10_kl_cholesky_form_nonnegative :
  forall n (W : nat -> nat -> R) (d : nat -> R),
    (forall i, (i < n)%nat -> (0 < W i i)%R) -> (0 <= kl2_chol n W d)%R.
Proof. exact kl2_chol_nonneg. Qed.
Print Assumptions c10_kl_cholesky_form_nonnegative.

Theorem c10_kl_cholesky_form_self_zero :
  forall n, kl2_chol n (fun i j => if Nat.eqb i j then 1%R else 0%R) (fun _ => 0%R) = 0%R.
Proof. exact kl2_chol_self. Qed.
Print Assumptions c10_kl_cholesky_form_self_zero.

(* the density's quadratic form is determined by the covariance, not by the inverse / solver used *)
Theorem c10_quadratic_form_well_defined :
  forall (K : Fld) n (A Ai Ai' r : M),
    is_inverse n A Ai -> is_inverse n A Ai' -> quad n Ai r = quad n Ai' r.
Proof. intros K. exact (@quad_inverse_irrelevant K). Qed.
Print Assumptions c10_quadratic_form_well_defined.

(* non-vacuity *)
Example ex_c10_getitem :
  run_mvn_getitem (2%Z, 4%Z, [EI (ISlice full_slice); EI (ISlice (mk (Some (-3)%Z) None (Some 2%Z)))])
  = [2; 1; 1; 2; 1; 3]%Z.
Proof. vm_compute. reflexivity. Qed.
Example ex_c10_kl_self :
  @kl_rational QcF 2 (fun _ _ => qc 1 2) (@of_list QcF [[qc 2 1; qc 1 1]; [qc 1 1; qc 2 1]])
               (fun _ _ => qc 1 2) (@of_list QcF [[qc 2 3; qc (-1) 3]; [qc (-1) 3; qc 2 3]]) = qc 0 1.
Proof. vm_compute. reflexivity. Qed.
Example ex_c10_kl_nonneg_hypothesis :
  (0 < @mmul RF 1 (fun _ _ => 2%R) (fun _ _ => 3%R) 0%nat 0%nat)%R.
Proof. unfold mmul. cbn. Lra.lra. Qed.

(* ------------------------------------------------------------------ broadcasting of batch shapes
   (kl_divergence, log_prob, +, expand; shapes and indices reversed = aligned from the last dimension) *)

(* every position b of the broadcast result reads an existing element of BOTH operands, for all shapes of all ranks
   (in particular different ranks on the two sides and size-1 dimensions on both) *)
Theorem c10_broadcast_reads_in_bounds :
  forall s t f b, bshape_rev s t = Some f -> valid_idx f b ->
    valid_idx s (bindex_rev s b) /\ valid_idx t (bindex_rev t b).
Proof. exact bindex_rev_valid. Qed.
Print Assumptions c10_broadcast_reads_in_bounds.

Theorem c10_broadcast_shape_symmetric : forall s t, bshape_rev s t = bshape_rev t s.
Proof. exact bshape_rev_comm. Qed.
Print Assumptions c10_broadcast_shape_symmetric.

Theorem c10_broadcast_rank : forall s t f, bshape_rev s t = Some f -> length f = Nat.max (length s) (length t).
Proof. exact bshape_rev_length. Qed.
Print Assumptions c10_broadcast_rank.

(* equal batch shapes: nothing is expanded *)
Theorem c10_broadcast_equal_shapes_identity :
  forall s b, bshape_rev s s = Some s /\ (valid_idx s b -> bindex_rev s b = b).
Proof. exact bcast_same. Qed.
Print Assumptions c10_broadcast_equal_shapes_identity.

Example ex_c10_broadcast_31_2 :
  bshape [3; 1] [2] = Some [3; 2] /\ bindex [3; 1] [2; 1] = [2; 0] /\ bindex [2] [2; 1] = [1].
Proof. exact ex_broadcast_31_2. Qed.
Print Assumptions ex_c10_broadcast_31_2.

(* ------------------------------------------------------------------ variance clamp (variance / stddev / confidence_region) *)

(* the reported variance is max(diag, floor) entry by entry, for every size *)
Theorem c10_variance_clamp_model :
  forall mv n (C : @M QcF),
    length (variance_clamped mv n C) = n /\
    forall i, (i < n)%nat ->
      let v := nth i (variance_clamped mv n C) mv in
      Qcanon.Qcle mv v /\ Qcanon.Qcle (C i i) v /\ (Qcanon.Qcle mv (C i i) -> v = C i i) /\ (Qcanon.Qcle (C i i) mv -> v = mv).
Proof. exact variance_clamped_spec. Qed.
Print Assumptions c10_variance_clamp_model.

(* the floor is settings.min_variance of the dtype of the variance TENSOR; the process default dtype plays no role *)
Theorem c10_variance_floor_is_of_tensor_dtype :
  forall default1 default2 tensor_dt fl,
    variance_floor default1 tensor_dt fl = variance_floor default2 tensor_dt fl
    /\ variance_floor default1 tensor_dt fl = floor_of fl tensor_dt.
Proof. exact variance_floor_is_tensor_dtype. Qed.
Print Assumptions c10_variance_floor_is_of_tensor_dtype.

(* ------------------------------------------------------------------ operation sequences on one object *)

(* EVERY finite sequence of public operations (scalar * and / of either sign, + constant, + independent MVN,
   add_jitter, event indexing, and the law-preserving ones: property reads that fill caches, expand, unsqueeze, batch
   indexing), from any start and any cache content: the object's (mean, covariance) is the law of A X + b + noise(E)
   for the composed affine map (A, b, E) of the sequence.  All lengths, all sizes (event size may change under indexing) *)
Theorem c10_op_sequence_is_affine :
  forall (K : Fld) (ops : list aop) n (m C : M) cache,
    aseq_valid ops n ->
    let '(k, A, b, E) := aseq_affine ops n in
    let '(k', m', C', _) := arun ops (n, m, C, cache) in
    k' = k /\ meq k 1 m' (affine_mean n A b m) /\ meq k k C' (madd (affine_cov n A C) E).
Proof. intros K. exact (@arun_is_affine K). Qed.
Print Assumptions c10_op_sequence_is_affine.

(* scalar steps only: a_1, ..., a_k in turn act as their product; the covariance is scaled by the square of the
   product, whatever the signs *)
Theorem c10_scalar_sequence_law :
  forall (K : Fld) (l : list car) n (m C : M) cache,
    let '(k, m', C', _) := arun (map AMul l) (n, m, C, cache) in
    k = n /\ meq n 1 m' (mul_mean (scal_prod l) m) /\ meq n n C' (mul_cov (scal_prod l) C).
Proof. intros K. exact (@arun_scalars K). Qed.
Print Assumptions c10_scalar_sequence_law.

(* caches are consistent along sequences: if every read that fills the Cholesky cache computed a factor of the
   covariance the object had at that moment, then after every prefix of every sequence the cached factor (carried over
   by expand / unsqueeze, dropped by every operation that changes the law) is a factor of the CURRENT covariance *)
Theorem c10_cache_consistent_along_sequences :
  forall (K : Fld) (ops1 ops2 : list aop) (s : astate),
    cache_ok s -> aseq_reads_ok (ops1 ++ ops2) s -> cache_ok (arun ops1 s).
Proof. intros K. exact (@cache_invariant_prefix K). Qed.
Print Assumptions c10_cache_consistent_along_sequences.

(* what could be carried across d * a instead of dropping the cache: |a| L is the Cholesky factor of a^2 C ... *)
Theorem c10_cached_factor_times_abs :
  forall n (a : R) (L C : @M RF),
    tri_lower n L -> (forall i, (i < n)%nat -> (0 < L i i)%R) -> meq n n (@mmul RF n L (@mT RF L)) C -> a <> 0%R ->
    tri_lower n (@mscale RF (Rabs a) L)
    /\ (forall i, (i < n)%nat -> (0 < @mscale RF (Rabs a) L i i)%R)
    /\ meq n n (@mmul RF n (@mscale RF (Rabs a) L) (@mT RF (@mscale RF (Rabs a) L))) (@mul_cov RF a C).
Proof. exact scaled_factor_abs. Qed.
Print Assumptions c10_cached_factor_times_abs.

(* ... a L for a < 0 is NOT: it multiplies to a^2 C but its diagonal is negative *)
Theorem c10_cached_factor_times_negative :
  forall n (a : R) (L C : @M RF),
    (forall i, (i < n)%nat -> (0 < L i i)%R) -> meq n n (@mmul RF n L (@mT RF L)) C -> (a < 0)%R ->
    (forall i, (i < n)%nat -> (@mscale RF a L i i < 0)%R)
    /\ meq n n (@mmul RF n (@mscale RF a L) (@mT RF (@mscale RF a L))) (@mul_cov RF a C).
Proof. exact scaled_factor_negative. Qed.
Print Assumptions c10_cached_factor_times_negative.

(* KL with a covariance given by a rectangular root R (n x r, any r: RootLinearOperator with a wide or tall root):
   the trace term is the sum of the r column quadratic forms (what inv_quad of [mean_diff, R] returns) and the constant
   is the EVENT size n, not r *)
Theorem c10_kl_rational_rectangular_root :
  forall (K : Fld) n r (mp mq R Qi : M),
    kl_rational n mp (mmul r R (mT R)) mq Qi
    = fsub (fadd (sum r (fun c => quad n Qi (fun i _ => R i c))) (quad n Qi (msub mp mq))) (nat_f n).
Proof. intros K. exact (@kl_rational_rect_root K). Qed.
Print Assumptions c10_kl_rational_rectangular_root.

(* non-vacuity: a sequence with a negative scalar, an index operation and a cache-filling read *)
Example ex_c10_sequence :
  run_seq (2%nat, [qc 1 2; qc 1 1], [[qc 2 1; qc 1 2]; [qc 1 2; qc 3 1]],
           [SObserve; SMul (qc (-2) 1); SKeep; SGet [1%nat; 0%nat]; SDiv (qc 4 1)], qc 1 10, [qc 0 1; qc 1 1],
           [qc 0 1; qc 0 1], [[qc 1 1; qc 0 1]; [qc 0 1; qc 2 1]])
  = (2 :: [-1; 2; -1; 4] ++ [3; 4; 1; 8; 1; 8; 1; 2] ++ [3; 4; 1; 2]
     ++ skipn 17 (run_seq (2%nat, [qc (-1) 2; qc (-1) 4], [[qc 3 4; qc 1 8]; [qc 1 8; qc 1 2]], [], qc 1 10,
                           [qc 0 1; qc 1 1], [qc 0 1; qc 0 1], [[qc 1 1; qc 0 1]; [qc 0 1; qc 2 1]])))%Z.
Proof. vm_compute. reflexivity. Qed.
Example ex_c10_sequence_valid :
  @aseq_valid QcF (map sop_aop [SObserve; SMul (qc (-2) 1); SKeep; SGet [1%nat; 0%nat]; SDiv (qc 4 1)]) 2.
Proof. exact ex_seq_valid. Qed.
Example ex_c10_cached_factor_hypotheses :
  tri_lower 2 exR_L /\ (forall i, (i < 2)%nat -> (0 < exR_L i i)%R).
Proof. exact ex_cached_factor_hyps. Qed.
Print Assumptions ex_c10_cached_factor_hypotheses.
Example ex_c10_clamp :
  variance_clamped (qc 1 1000000) 2 (@of_list QcF [[qc 1 100000000; qc 0 1]; [qc 0 1; qc 3 1]]) = [qc 1 1000000; qc 3 1].
Proof. vm_compute. reflexivity. Qed.

(* ------------------------------------------------------------------------------------------ *)
(* KL >= 0 for ALL symmetric positive definite covariances (Base/Cholesky.v, Proofs/C10_kl_pd.v) *)
From GPV Require Import Base.Det Base.Psd Base.Cholesky Proofs.C10_det Proofs.C10_kl_pd.

(* GENERAL theorem: no factor hypotheses.  For every n, all means and ALL symmetric positive definite
   P, Q ([PD] of Base/Psd.v: x^T A x >= 0, and <> 0 for x <> 0), Qi ANY inverse of Q, the model's own
   expression 2 KL(N(mp,P) || N(mq,Q)) = kl_rational + ln det Q - ln det P ([det]: the Laplace determinant
   the executable model prints) is well defined (both determinants positive), non-negative, and equal to 0
   when the two distributions coincide (P = Q entrywise on n x n, mp = mq on n x 1).
   The Cholesky factors c10_kl_nonnegative asks for are constructed (c10_pd_has_cholesky_factor). *)
Theorem c10_kl_nonnegative_pd :
  forall n (mp mq P Q Qi : @M RF),
    symmetric n P -> @PD RF ROrd n P -> symmetric n Q -> @PD RF ROrd n Q -> is_inverse n Q Qi ->
    (0 < det n P)%R /\ (0 < det n Q)%R /\
    (0 <= kl_rational n mp P mq Qi + ln (det n Q) - ln (det n P))%R /\
    (meq n n P Q -> meq n 1 mp mq ->
     (kl_rational n mp P mq Qi + ln (det n Q) - ln (det n P))%R = 0%R).
Proof. exact kl_pd_full. Qed.
Print Assumptions c10_kl_nonnegative_pd.

(* what makes it go: over R every symmetric PD matrix has a Cholesky factor -- lower triangular,
   STRICTLY positive diagonal -- and that factor has a lower-triangular two-sided inverse (every n) *)
Theorem c10_pd_has_cholesky_factor :
  forall n (A : @M RF), symmetric n A -> @PD RF ROrd n A ->
    exists L Li : @M RF,
      tri_lower n L /\ (forall i, (i < n)%nat -> (0 < L i i)%R) /\
      meq n n (mmul n L (mT L)) A /\ is_inverse n L Li /\ tri_lower n Li.
Proof. exact pd_cholesky_inverse. Qed.
Print Assumptions c10_pd_has_cholesky_factor.

(* ... and conversely: symmetric PD  <=>  L L^T with L lower triangular of positive diagonal, so the
   hypotheses of c10_kl_nonnegative and of c10_kl_nonnegative_pd describe the same covariances *)
Theorem c10_pd_iff_cholesky_factored :
  forall n (A : @M RF),
    (symmetric n A /\ @PD RF ROrd n A) <->
    exists L : @M RF, tri_lower n L /\ (forall i, (i < n)%nat -> (0 < L i i)%R) /\
                      meq n n (mmul n L (mT L)) A.
Proof. exact pd_iff_cholesky. Qed.
Print Assumptions c10_pd_iff_cholesky_factored.

(* forward substitution, any field, axiom-free: a lower-triangular matrix with non-zero diagonal has a
   two-sided inverse, and it is lower triangular *)
Theorem c10_triangular_factor_invertible :
  forall (K : Fld) n (L : M), tri_lower n L -> (forall i, (i < n)%nat -> L i i <> f0) ->
    exists Li : M, is_inverse n L Li /\ tri_lower n Li.
Proof. intros K. exact (@tri_lower_has_inverse K). Qed.
Print Assumptions c10_triangular_factor_invertible.

(* a symmetric PD covariance is invertible, its determinant is positive (so log_prob's log-det term is
   defined) and every inverse (precision matrix) is again symmetric PD *)
Theorem c10_pd_covariance_invertible :
  forall n (A : @M RF), symmetric n A -> @PD RF ROrd n A ->
    (0 < det n A)%R /\ (exists Ai : @M RF, is_inverse n A Ai) /\
    (forall Ai : @M RF, is_inverse n A Ai -> symmetric n Ai /\ @PD RF ROrd n Ai).
Proof. exact pd_covariance_invertible. Qed.
Print Assumptions c10_pd_covariance_invertible.

(* for symmetric PD P, Q the closed form still IS the Cholesky / inv_quad_logdet form the code evaluates *)
Theorem c10_kl_closed_form_is_cholesky_form_pd :
  forall n (mp mq P Q Qi : @M RF),
    symmetric n P -> @PD RF ROrd n P -> symmetric n Q -> @PD RF ROrd n Q -> is_inverse n Q Qi ->
    exists Lp Lq Li : @M RF,
      tri_lower n Lp /\ tri_lower n Lq /\
      (forall i, (i < n)%nat -> (0 < Lp i i)%R) /\ (forall i, (i < n)%nat -> (0 < Lq i i)%R) /\
      is_inverse n Lq Li /\
      meq n n (mmul n Lp (mT Lp)) P /\ meq n n (mmul n Lq (mT Lq)) Q /\
      (kl_rational n mp P mq Qi + ln (det n Q) - ln (det n P))%R
      = kl2_chol n (@mmul RF n Li Lp) (fun a => @mmul RF n Li (@msub RF mp mq) a O).
Proof. exact kl_pd_has_cholesky_form. Qed.
Print Assumptions c10_kl_closed_form_is_cholesky_form_pd.

(* non-vacuity: P = Q = [[2,1],[1,2]], not given in factored form, with its inverse *)
Example ex_c10_kl_nonnegative_pd_hypotheses :
  symmetric 2 exPD /\ @PD RF ROrd 2 exPD /\ is_inverse 2 exPD exPD_inv.
Proof. exact ex_kl_pd_hyps. Qed.
Print Assumptions ex_c10_kl_nonnegative_pd_hypotheses.

(* ---- indexing, complement to c10_getitem_positions_valid (which covers every index form the model
   accepts: int, slice, index tensor, trailing Ellipsis; Proofs/C10_index_nodup.v): unless an index
   TENSOR is used (it may repeat entries on purpose), no event position is handed to the covariance
   twice, and an int component yields exactly one position *)
From GPV Require Import Proofs.C10_index_nodup.
Theorem c10_getitem_positions_nodup :
  forall dim n idx nb kind l, (0 <= n)%Z ->
    (forall tl, ~ In (EI (ITensor tl)) idx) ->
    mvn_getitem dim n idx = Some (nb, Some (kind, l)) ->
    NoDup l /\ (kind = 0%Z -> List.length l = 1%nat).
Proof. exact mvn_getitem_positions_nodup. Qed.
Print Assumptions c10_getitem_positions_nodup.

Example ex_c10_getitem_nodup :
  (mvn_getitem 2 5 [EE; EI (ISlice (mk (Some (-4)) None (Some 2)))] = Some (1, Some (1, [1; 3])))%Z.
Proof. exact ex_mvn_getitem_nodup. Qed.
Print Assumptions ex_c10_getitem_nodup.

(* ---- the EXECUTED KL / log density is the REAL-NUMBER one (Base/Morph.v, Proofs/C10_morph.v) ----------------
   run_kl prints  1/2 * ((ELog det Q - ELog det P) + kl_rational)  with exact rational determinants and an exact
   rational kl_rational ([kl_expr_Qc]; c10_run_kl_prints_kl_expr shows it is literally that term).  Q2R' is a field
   morphism QcF -> RF that commutes with the Laplace determinant and with kl_rational, hence the printed term DENOTES
   [kl_R] = 1/2 (kl_rational + ln det Q - ln det P) over the reals on the real images of the inputs, with ANY real
   inverse of the real Q.  So c10_kl_nonnegative / c10_kl_nonnegative_pd are statements about the executed quantity. *)
From GPV Require Import Base.Morph Proofs.C10_morph.

Theorem c10_run_kl_prints_kl_expr :
  forall n mp cp mq cq,
    run_kl (n, mp, cp, mq, cq) =
    match inv_checked n (mat n n (@of_list QcF cq)) with
    | None => [0%Z]
    | Some Qi => 1%Z :: ser_expr (kl_expr_Qc n (@vec_of_list QcF mp) (@of_list QcF cp)
                                    (@vec_of_list QcF mq) (@of_list QcF cq) Qi)
    end.
Proof. exact run_kl_unfold. Qed.
Print Assumptions c10_run_kl_prints_kl_expr.

Theorem c10_den_kl_expr_is_real_kl :
  forall n (mp P mq Q Qi : @M QcF),
    den (kl_expr_Qc n mp P mq Q Qi) = kl_R n (mapR mp) (mapR P) (mapR mq) (mapR Q) (mapR Qi).
Proof. exact den_kl_expr_Qc. Qed.
Print Assumptions c10_den_kl_expr_is_real_kl.

Theorem c10_executed_kl_is_real_kl :
  forall n (mp P mq Q Qi : @M QcF),
    inv_checked n (mat n n Q) = Some Qi ->
    is_inverse n (mapR Q) (mapR Qi) /\
    den (kl_expr_Qc n mp P mq Q Qi) = kl_R n (mapR mp) (mapR P) (mapR mq) (mapR Q) (mapR Qi) /\
    (forall QiR : @M RF, is_inverse n (mapR Q) QiR ->
       den (kl_expr_Qc n mp P mq Q Qi) = kl_R n (mapR mp) (mapR P) (mapR mq) (mapR Q) QiR).
Proof. exact executed_kl_is_real_kl. Qed.
Print Assumptions c10_executed_kl_is_real_kl.

(* c10_kl_nonnegative applied to the EXECUTED term: real Cholesky factors of the real images of P and Q *)
Theorem c10_executed_kl_nonnegative :
  forall n (mp P mq Q Qi : @M QcF) (Lp Lq Li : @M RF),
    inv_checked n (mat n n Q) = Some Qi ->
    tri_lower n Lp -> tri_lower n Lq ->
    (forall i, (i < n)%nat -> (0 < Lp i i)%R) -> (forall i, (i < n)%nat -> (0 < Lq i i)%R) ->
    is_inverse n Lq Li ->
    meq n n (mmul n Lp (mT Lp)) (mapR P) -> meq n n (mmul n Lq (mT Lq)) (mapR Q) ->
    (0 < Q2R' (@det QcF n P))%R /\ (0 < Q2R' (@det QcF n Q))%R /\ (0 <= den (kl_expr_Qc n mp P mq Q Qi))%R.
Proof. exact executed_kl_nonneg_cholesky. Qed.
Print Assumptions c10_executed_kl_nonnegative.

(* ... and without factor hypotheses: real images symmetric positive definite *)
Theorem c10_executed_kl_nonnegative_pd :
  forall n (mp P mq Q Qi : @M QcF),
    inv_checked n (mat n n Q) = Some Qi ->
    @symmetric RF n (mapR P) -> @PD RF ROrd n (mapR P) ->
    @symmetric RF n (mapR Q) -> @PD RF ROrd n (mapR Q) ->
    (0 < Q2R' (@det QcF n P))%R /\ (0 < Q2R' (@det QcF n Q))%R /\ (0 <= den (kl_expr_Qc n mp P mq Q Qi))%R.
Proof. exact executed_kl_nonneg_pd. Qed.
Print Assumptions c10_executed_kl_nonnegative_pd.

(* the log density run_logprob prints denotes  -1/2 (r^T C^-1 r + ln det C + n ln 2 pi)  over R *)
Theorem c10_executed_logprob_is_real_logprob :
  forall n (C Ci r : @M QcF),
    den (logprob_expr_Qc n C Ci r)
    = (- / 2 * (@quad RF n (mapR Ci) (mapR r) + ln (@det RF n (mapR C)) + INR n * ln (2 * PI)))%R.
Proof. exact den_logprob_expr_Qc. Qed.
Print Assumptions c10_executed_logprob_is_real_logprob.

(* the determinant and the rational part commute with ANY field morphism (generic, no axioms) *)
Theorem c10_det_commutes_with_field_morphisms :
  forall (K1 K2 : Fld) (phi : @car K1 -> @car K2), FldMorph K1 K2 phi ->
    forall n (A : @M K1), phi (@det K1 n A) = @det K2 n (mmap phi A).
Proof. exact (@phi_det). Qed.
Print Assumptions c10_det_commutes_with_field_morphisms.

Theorem c10_kl_rational_commutes_with_field_morphisms :
  forall (K1 K2 : Fld) (phi : @car K1 -> @car K2), FldMorph K1 K2 phi ->
    forall n (m P q Qi : @M K1),
      phi (@kl_rational K1 n m P q Qi) = @kl_rational K2 n (mmap phi m) (mmap phi P) (mmap phi q) (mmap phi Qi).
Proof. exact (@kl_rational_morph). Qed.
Print Assumptions c10_kl_rational_commutes_with_field_morphisms.

Example ex_c10_executed_kl_hypotheses :
  (exists Qi, inv_checked 2 (mat 2 2 exq_P) = Some Qi) /\
  @symmetric RF 2 (mapR exq_P) /\ @PD RF ROrd 2 (mapR exq_P).
Proof. exact ex_executed_kl_hyps. Qed.
Print Assumptions ex_c10_executed_kl_hypotheses.

(* ---- index grammar: an Ellipsis that matches ZERO dimensions may stand at EVERY position of the tuple (leading,
   between two components, TRAILING) without changing the result: the tuple is first stripped of it and only then split
   into batch part / event component (Proofs/C10_ellipsis.v).  With c10_getitem_last_component / _int_component this
   gives the event positions of d[b_1, .., b_k, x, ...], d[b_1, .., ..., .., x], d[..., b_1, .., x] for all ranks. *)
From GPV Require Import Proofs.C10_ellipsis.
Theorem c10_getitem_zero_dim_ellipsis_anywhere :
  forall dim n (l1 l2 : list pyidx), Z.of_nat (length l1 + length l2) = dim ->
    mvn_getitem dim n (map EI l1 ++ EE :: map EI l2) = mvn_getitem dim n (map EI (l1 ++ l2)).
Proof. exact mvn_getitem_zero_dim_ellipsis. Qed.
Print Assumptions c10_getitem_zero_dim_ellipsis_anywhere.

Theorem c10_getitem_trailing_ellipsis_component :
  forall dim n (b : list pyidx) x, (Z.of_nat (length b) + 1 = dim)%Z -> is_int x = false ->
    mvn_getitem dim n (map EI b ++ [EI x; EE]) =
      match idx_positions n x with Some l => Some ((dim - 1)%Z, Some (1%Z, l)) | None => None end.
Proof. exact mvn_getitem_trailing_ellipsis. Qed.
Print Assumptions c10_getitem_trailing_ellipsis_component.

Theorem c10_getitem_trailing_ellipsis_int_component :
  forall dim n (b : list pyidx) i, (Z.of_nat (length b) + 1 = dim)%Z ->
    mvn_getitem dim n (map EI b ++ [EI (IInt i); EE]) =
      match norm_index n i with Some k => Some ((dim - 1)%Z, Some (0%Z, [k])) | None => None end.
Proof. exact mvn_getitem_trailing_ellipsis_int. Qed.
Print Assumptions c10_getitem_trailing_ellipsis_int_component.

(* one component too many raises wherever the Ellipsis stands *)
Theorem c10_getitem_too_long_with_ellipsis_raises :
  forall dim n (l1 l2 : list pyidx), (dim < Z.of_nat (length l1 + length l2))%Z ->
    mvn_getitem dim n (map EI l1 ++ EE :: map EI l2) = None.
Proof. exact mvn_getitem_too_long_ellipsis. Qed.
Print Assumptions c10_getitem_too_long_with_ellipsis_raises.

Example ex_c10_getitem_ellipsis_positions :
  (mvn_getitem 3 4 [EI (IInt 0); EI (IInt 1); EI (ISlice (mk (Some 1) (Some 3) None)); EE] = Some (2, Some (1, [1; 2]))
  /\ mvn_getitem 3 4 [EI (IInt 0); EE; EI (IInt 1); EI (ISlice (mk (Some 1) (Some 3) None))] = Some (2, Some (1, [1; 2]))
  /\ mvn_getitem 3 4 [EE; EI (IInt 0); EI (IInt 1); EI (ISlice (mk (Some 1) (Some 3) None))] = Some (2, Some (1, [1; 2]))
  /\ mvn_getitem 2 3 [EI (ISlice full_slice); EI (ITensor [2; 1; 0]); EE] = Some (1, Some (1, [2; 1; 0])))%Z.
Proof. exact ex_mvn_getitem_ellipsis_positions. Qed.
Print Assumptions ex_c10_getitem_ellipsis_positions.
