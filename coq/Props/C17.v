(* C17 — Constraints, parameter setters and priors: bounds, bijection, round trips.
   Statement file: theorems, [exact lemma], Print Assumptions.  Nothing else.
   All statements are over Coq's reals.  What is NOT proved (and is swept numerically by the
   driver, labelled as a test): float64 saturation — softplus(-800) = 0 and sigmoid(40) = 1 give
   the CLOSED interval, softplus(x) = x above torch's threshold 20, inv_softplus near 1e-30 —
   this is libm rounding the real-number model cannot exhibit. *)
From Coq Require Import Arith List Reals QArith Qcanon.
From GPV Require Import Base.LinAlg Base.Exec Base.Expr Models.C17_constraints
  Proofs.C17_constraints Proofs.C17_extra Proofs.C17_lkj Proofs.C17_multi Proofs.C17_bounds.
Import ListNotations.

(* range: for EVERY real raw value the transformed value is strictly inside the bounds
   (Interval: l < u required, as the constructor enforces) *)
Theorem c17_transform_range :
  forall (c : cons) (x : R), wf c -> in_bounds c (transform_R c x).
Proof. exact transform_range. Qed.
Print Assumptions c17_transform_range.

(* strict monotonicity, all four classes *)
Theorem c17_transform_strictly_increasing :
  forall (c : cons) (x x' : R), wf c -> (x < x')%R -> (transform_R c x < transform_R c x')%R.
Proof. exact transform_increasing. Qed.
Print Assumptions c17_transform_strictly_increasing.

(* inverse_transform o transform = id on all of R *)
Theorem c17_inverse_after_transform :
  forall (c : cons) (x : R), wf c -> inverse_R c (transform_R c x) = x.
Proof. exact inverse_transform_id. Qed.
Print Assumptions c17_inverse_after_transform.

(* transform o inverse_transform = id on the interior of the bounds *)
Theorem c17_transform_after_inverse :
  forall (c : cons) (y : R), wf c -> in_bounds c y -> transform_R c (inverse_R c y) = y.
Proof. exact transform_inverse_id. Qed.
Print Assumptions c17_transform_after_inverse.

(* the DESIGN Appendix-A statement for GreaterThan, as an instance *)
Theorem c17_greater_than_bijection :
  forall (lb : Qc) (x : R),
    (q lb < transform_R (CGreater lb) x)%R
    /\ inverse_R (CGreater lb) (transform_R (CGreater lb) x) = x
    /\ (forall y, (q lb < y)%R -> transform_R (CGreater lb) (inverse_R (CGreater lb) y) = y)
    /\ (forall x', (x < x')%R -> (transform_R (CGreater lb) x < transform_R (CGreater lb) x')%R).
Proof. exact greater_than_bijection. Qed.
Print Assumptions c17_greater_than_bijection.

(* the executable (Expr) model denotes the real-number model *)
Theorem c17_model_denotes :
  forall (c : cons) (x : expr),
    den (transform_e c x) = transform_R c (den x) /\ den (inverse_e c x) = inverse_R c (den x).
Proof. exact model_denotes. Qed.
Print Assumptions c17_model_denotes.

(* history invariant: after ANY list of set / initialize / step operations, started anywhere,
   every intermediate and the final constrained read is inside the bounds *)
Theorem c17_history_in_bounds :
  forall (c : cons) (s : cell expr) (ops : list (op Qc expr)), wf c ->
    Forall (fun s' => in_bounds c (readR c s')) (trace_e c s ops).
Proof. exact history_in_bounds. Qed.
Print Assumptions c17_history_in_bounds.

(* `module.<param> = v` (and initialize(<param>=v)) with v in the interior reads back v *)
Theorem c17_set_reads_back :
  forall (c : cons) (s : cell expr) (v : Qc), wf c -> interior_q c v = true ->
    readR c (step_e c s (Set_ v)) = q v /\ snd (step_e c s (Set_ v)) = snd s /\
    readR c (step_e c s (InitCons v)) = q v.
Proof. exact set_reads_back. Qed.
Print Assumptions c17_set_reads_back.

(* an out-of-bounds assignment is rejected (counted) and leaves the cell unchanged *)
Theorem c17_out_of_bounds_rejected :
  forall (c : cons) (s : cell expr) (v : Qc), interior_q c v = false ->
    fst (step_e c s (Set_ v)) = fst s /\ snd (step_e c s (Set_ v)) = S (snd s) /\
    step_e c s (InitCons v) = step_e c s (Set_ v).
Proof. exact set_out_of_bounds_rejected. Qed.
Print Assumptions c17_out_of_bounds_rejected.

(* the rational interior test used by the executable model decides the real one *)
Theorem c17_interior_test_sound :
  forall (c : cons) (v : Qc), interior_q c v = true <-> in_bounds c (q v).
Proof. exact interior_q_spec. Qed.
Print Assumptions c17_interior_test_sound.

(* priors: the printed log densities are the logarithms of the documented densities *)
Theorem c17_normal_prior :
  forall mu s x : expr, (0 < den s)%R ->
    den (lp_normal mu s x) = ln (normal_pdf (den x) (den mu) (den s)).
Proof. exact lp_normal_correct. Qed.
Print Assumptions c17_normal_prior.

Theorem c17_lognormal_prior :
  forall mu s x : expr, (0 < den s)%R -> (0 < den x)%R ->
    den (lp_lognormal mu s x) = (den (lp_normal mu s (ELog x)) - ln (den x))%R /\
    den (lp_lognormal mu s x) = ln (normal_pdf (ln (den x)) (den mu) (den s) / den x).
Proof. exact lp_lognormal_correct. Qed.
Print Assumptions c17_lognormal_prior.

Theorem c17_halfnormal_prior :
  forall s x : expr, (0 < den s)%R ->
    den (lp_halfnormal s x) = ln (2 * normal_pdf (den x) 0 (den s)).
Proof. exact lp_halfnormal_correct. Qed.
Print Assumptions c17_halfnormal_prior.

Theorem c17_gamma_prior :
  forall a b x : expr, (0 < den b)%R -> (0 < den x)%R ->
    den (lp_gamma a b x)
    = (ln (Rpower (den b) (den a) * Rpower (den x) (den a - 1) * exp (- (den b * den x)))
       - ln (Gamma_fn (den a)))%R.
Proof. exact lp_gamma_correct. Qed.
Print Assumptions c17_gamma_prior.

Theorem c17_halfcauchy_prior :
  forall s x : expr, (0 < den s)%R ->
    den (lp_halfcauchy s x)
    = ln (2 / (PI * den s * (1 + (den x / den s) * (den x / den s)))).
Proof. exact lp_halfcauchy_correct. Qed.
Print Assumptions c17_halfcauchy_prior.

Theorem c17_uniform_prior :
  forall a b : expr, (den a < den b)%R -> den (lp_uniform a b) = ln (1 / (den b - den a)).
Proof. exact lp_uniform_correct. Qed.
Print Assumptions c17_uniform_prior.

Theorem c17_smoothedbox_prior :
  forall a b s x : expr, (0 < den s)%R -> (den a < den b)%R ->
    den (lp_smoothedbox a b s x)
    = ln (normal_pdf (boxdist (den a) (den b) (den x)) 0 (den s)
          / (1 + (den b - den a) / (sqrt (2 * PI) * den s))).
Proof. exact lp_smoothedbox_correct. Qed.
Print Assumptions c17_smoothedbox_prior.

(* HorseshoePrior: log of the average of the two documented bounds lb, ub with K = 1/sqrt(2 pi^3) *)
Theorem c17_horseshoe_prior :
  forall s x : expr,
    den (lp_horseshoe s x) = ln ((horseshoe_lb (den s) (den x) + horseshoe_ub (den s) (den x)) / 2).
Proof. exact lp_horseshoe_correct. Qed.
Print Assumptions c17_horseshoe_prior.

(* SmoothedBoxPrior is flat on the box [a, b] *)
Theorem c17_smoothedbox_plateau :
  forall a b s x x' : expr, (0 < den s)%R -> (den a < den b)%R ->
    (den a <= den x <= den b)%R -> (den a <= den x' <= den b)%R ->
    den (lp_smoothedbox a b s x) = den (lp_smoothedbox a b s x').
Proof. exact lp_smoothedbox_plateau. Qed.
Print Assumptions c17_smoothedbox_plateau.

(* normalisation where it is elementary: exp(UniformPrior.log_prob) integrates to 1 over [a, b] *)
Theorem c17_uniform_prior_normalised :
  forall a b : expr, (den a < den b)%R ->
    @Coquelicot.RInt.RInt Coquelicot.Hierarchy.R_CompleteNormedModule
      (fun _ => exp (den (lp_uniform a b))) (den a) (den b) = 1%R.
Proof. exact uniform_normalised. Qed.
Print Assumptions c17_uniform_prior_normalised.

(* LKJ priors.  [lp_lkj_corr] is the density DOCUMENTED for LKJPrior (over correlation matrices):
   log( C |Sigma|^(eta-1) ) with |Sigma| = prod_i L_ii^2 ... *)
Theorem c17_lkj_corr_is_det_power :
  forall (n : nat) (eta : expr) (ds : list expr), Forall (fun d => (0 < den d)%R) ds ->
    den (lp_lkj_corr n eta ds)
    = ((den eta - 1) * ln (prod_sq (map den ds)) - den (e_lkj_lognorm n eta))%R.
Proof. exact lkj_corr_is_det_power. Qed.
Print Assumptions c17_lkj_corr_is_det_power.

(* ... and [lp_lkj_chol] (LKJCholeskyFactorPrior = torch LKJCholesky, the density of the Cholesky
   FACTOR) is that density times the Jacobian prod_{i>=2} L_ii^(n-i) of Sigma -> L.  LKJPrior.log_prob
   (Sigma) returns lp_lkj_chol at chol(Sigma): for n >= 3 that is NOT the documented density of
   Sigma (known finding C17-lkjprior-factor-density; a pinned test requires the current value). *)
Theorem c17_lkj_chol_is_corr_plus_jacobian :
  forall (eta d : expr) (ds : list expr), den d = 1%R ->
    den (lp_lkj_chol (S (length ds)) eta (d :: ds))
    = (den (lp_lkj_corr (S (length ds)) eta (d :: ds)) + den (e_lkj_logjac (S (length ds)) (d :: ds)))%R.
Proof. exact lkj_chol_is_corr_plus_jacobian. Qed.
Print Assumptions c17_lkj_chol_is_corr_plus_jacobian.

(* transform is injective; raw initialisation and optimiser steps read the transform of the new raw value *)
Theorem c17_transform_injective :
  forall (c : cons) (x x' : R), wf c -> transform_R c x = transform_R c x' -> x = x'.
Proof. exact transform_injective. Qed.
Print Assumptions c17_transform_injective.

Theorem c17_raw_ops_read :
  forall (c : cons) (s : cell expr) (r d : expr),
    readR c (step_e c s (InitRaw r)) = transform_R c (den r) /\
    readR c (step_e c s (Step d)) = transform_R c (den (fst s) + den d)%R.
Proof. exact raw_ops_read. Qed.
Print Assumptions c17_raw_ops_read.

(* ---- modules with SEVERAL constrained parameters, each with its own constraint (mstate) --------------
   an operation on parameter i never touches another parameter (constraint, raw value, rejection count),
   whichever constraint the setter consults *)
Theorem c17_multi_set_frame :
  forall (via : nat -> nat) (s : mstate) (i j : nat) (o : op Qc expr), j <> i ->
    nth_error (mstep_via via s (i, o)) j = nth_error s j.
Proof. intros via s i j o H. exact (mstep_frame via s i o j H). Qed.
Print Assumptions c17_multi_set_frame.

(* `module.<param_i> = v` / initialize(<param_i>=v) with v inside the bounds of constraint i reads back v, for ANY
   constraints (classes, bounds) of the other parameters *)
Theorem c17_multi_set_reads_back :
  forall (s : mstate) (i : nat) (c : cons) (cl : cell expr) (v : Qc),
    nth_error s i = Some (c, cl) -> wf c -> interior_q c v = true ->
    exists cl', nth_error (mstep s (i, Set_ v)) i = Some (c, cl') /\ readR c cl' = q v /\ snd cl' = snd cl
                /\ nth_error (mstep s (i, InitCons v)) i = Some (c, cl').
Proof. exact mset_reads_back. Qed.
Print Assumptions c17_multi_set_reads_back.

(* a value outside the bounds of constraint i is rejected (raw value kept, counted) even when it lies inside the
   bounds of every other parameter of the module *)
Theorem c17_multi_out_of_bounds_rejected :
  forall (s : mstate) (i : nat) (c : cons) (cl : cell expr) (v : Qc),
    nth_error s i = Some (c, cl) -> interior_q c v = false ->
    nth_error (mstep s (i, Set_ v)) i = Some (c, (fst cl, S (snd cl))).
Proof. exact mset_out_of_bounds. Qed.
Print Assumptions c17_multi_out_of_bounds_rejected.

(* after ANY history of operations addressed to any of the parameters every parameter reads inside its own bounds *)
Theorem c17_multi_history_in_bounds :
  forall (s : mstate) (ops : list (nat * op Qc expr)), all_wf s -> Forall all_in_bounds (mtrace s ops).
Proof. exact mhistory_in_bounds. Qed.
Print Assumptions c17_multi_history_in_bounds.

(* a setter that consults ANOTHER parameter's constraint (stored through GreaterThan(l'), read through GreaterThan(l);
   Positive is l = 0): the read-back is shifted by l - l', so it is v exactly when the two bounds coincide -- invisible
   with default constraints, wrong for any distinct pair; same for two Intervals (affine image) *)
Theorem c17_setter_via_other_constraint_greater :
  forall (l l' : Qc) (cl : cell expr) (v : Qc), interior_q (CGreater l') v = true ->
    readR (CGreater l) (step_via (CGreater l) (CGreater l') cl (Set_ v)) = (q v - q l' + q l)%R /\
    (readR (CGreater l) (step_via (CGreater l) (CGreater l') cl (Set_ v)) = q v <-> q l = q l').
Proof.
  intros l l' cl v H. split; [exact (setter_via_other_greater l l' cl v H)|exact (setter_via_other_greater_iff l l' cl v H)].
Qed.
Print Assumptions c17_setter_via_other_constraint_greater.

Theorem c17_setter_via_other_constraint_interval :
  forall (l u l' u' : Qc) (cl : cell expr) (v : Qc),
    wf (CInterval l' u') -> interior_q (CInterval l' u') v = true ->
    readR (CInterval l u) (step_via (CInterval l u) (CInterval l' u') cl (Set_ v))
    = ((q v - q l') / (q u' - q l') * (q u - q l) + q l)%R.
Proof. exact setter_via_other_interval. Qed.
Print Assumptions c17_setter_via_other_constraint_interval.

(* hence "set reads back, out-of-bounds rejected" is refuted for a module whose setter of parameter 0 consults the
   constraint of parameter 1: a two-parameter witness with GreaterThan(1) / GreaterThan(0) *)
Theorem c17_setter_wrong_constraint_refuted :
  exists (s : mstate) (i : nat) (c : cons) (cl : cell expr) (v w : Qc),
    all_wf s /\ nth_error s i = Some (c, cl) /\ interior_q c v = true /\ interior_q c w = false /\
    (forall cl', nth_error (mstep_via (fun j => (1 - j)%nat) s (i, Set_ v)) i = Some (c, cl') -> readR c cl' <> q v) /\
    (forall cl', nth_error (mstep_via (fun j => (1 - j)%nat) s (i, Set_ w)) i = Some (c, cl') -> snd cl' = snd cl).
Proof. exact setter_wrong_constraint_refuted. Qed.
Print Assumptions c17_setter_wrong_constraint_refuted.

Example ex_c17_multi_module :
  let s := [(CInterval (qc 1 2) (qc 4 1), (EConst 0%Qc, O)); (CGreater (qc 5 1), (EConst 0%Qc, O));
            (CLess (qc 3 1), (EConst 0%Qc, O))] in
  all_wf s /\ nth_error s 1 = Some (CGreater (qc 5 1), (EConst 0%Qc, O)) /\
  interior_q (CGreater (qc 5 1)) (qc 6 1) = true /\ interior_q (CInterval (qc 1 2) (qc 4 1)) (qc 6 1) = false /\
  length (mtrace s [(1%nat, Set_ (qc 6 1)); (0%nat, Set_ (qc 6 1)); (2%nat, Step (EConst (qc 1 1)))]) = 3%nat.
Proof. exact ex_multi_module. Qed.
Print Assumptions ex_c17_multi_module.

(* non-vacuity: a well-formed interval, an interior value, a non-empty history *)
Example ex_c17_interval_history :
  wf (CInterval (qc 1 10) (qc 5 2)) /\ interior_q (CInterval (qc 1 10) (qc 5 2)) (qc 3 2) = true /\
  length (trace_e (CInterval (qc 1 10) (qc 5 2)) (EConst 0%Qc, O)
            [Set_ (qc 3 2); Step (EConst (qc (-7) 1)); Set_ (qc 3 1); InitRaw (EConst (qc 40 1))]) = 4%nat.
Proof. exact ex_interval_history. Qed.
Print Assumptions ex_c17_interval_history.

(* ---- histories in which the BOUNDS are replaced (load_state_dict of the bound buffers, register_constraint,
   casts / copies).  After ANY such history every intermediate and the final constrained read lies strictly
   inside the bounds IN FORCE at that moment *)
Theorem c17_bounds_replaced_history_in_bounds :
  forall (s : bstate) (ops : list bop), wf (fst s) -> Forall bop_wf ops ->
    Forall (fun s' => in_bounds (fst s') (breadR s')) (btrace s ops).
Proof. exact bhistory_in_bounds. Qed.
Print Assumptions c17_bounds_replaced_history_in_bounds.

(* replacing the bounds keeps the raw value: the read is the NEW transform of the old raw value *)
Theorem c17_replace_bounds_reads :
  forall (s : bstate) (c' : cons),
    breadR (bstep s (BReplace c')) = transform_R c' (den (fst (snd s))) /\
    fst (bstep s (BReplace c')) = c' /\ snd (bstep s (BReplace c')) = snd s.
Proof. exact breplace_reads. Qed.
Print Assumptions c17_replace_bounds_reads.

(* a value saved under bounds c' (state dict: bounds c', raw = inverse of v under c') is read back as v
   by whatever module loads it, whatever bounds that module was built with *)
Theorem c17_loaded_value_reads_back :
  forall (s : bstate) (c' : cons) (v : Qc), wf c' -> interior_q c' v = true ->
    breadR (bstep s (BLoad c' (inverse_e c' (EConst v)))) = q v.
Proof. exact bload_saved_value_reads_back. Qed.
Print Assumptions c17_loaded_value_reads_back.

(* after a replacement assignments are judged by the NEW bounds: interior values read back, values outside
   the new bounds are rejected and leave the raw value - whatever the earlier bounds were *)
Theorem c17_set_after_replace_bounds :
  forall (s : bstate) (c' : cons) (v : Qc), wf c' ->
  (interior_q c' v = true ->
     breadR (bstep (bstep s (BReplace c')) (BOp (Set_ v))) = q v /\
     snd (snd (bstep (bstep s (BReplace c')) (BOp (Set_ v)))) = snd (snd s)) /\
  (interior_q c' v = false ->
     fst (snd (bstep (bstep s (BReplace c')) (BOp (Set_ v)))) = fst (snd s) /\
     snd (snd (bstep (bstep s (BReplace c')) (BOp (Set_ v)))) = S (snd (snd s))).
Proof. exact bset_after_replace. Qed.
Print Assumptions c17_set_after_replace_bounds.

(* optimiser steps after a replacement: the read is the NEW transform of the moved raw value *)
Theorem c17_step_after_replace_bounds :
  forall (s : bstate) (c' : cons) (d : expr),
    breadR (bstep (bstep s (BReplace c')) (BOp (Step d))) = transform_R c' (den (fst (snd s)) + den d)%R.
Proof. exact bstep_after_replace. Qed.
Print Assumptions c17_step_after_replace_bounds.

(* why nothing derived from earlier bounds may survive: a sigmoid transform that keeps an earlier WIDTH w0
   larger than the new one maps some raw value outside the new interval *)
Theorem c17_stale_width_refuted :
  forall (l u w0 : Qc), (q l < q u)%R -> (q u - q l < q w0)%R ->
    exists x : R, ~ in_bounds (CInterval l u) (sigmoid x * q w0 + q l)%R.
Proof. exact stale_width_leaves_bounds. Qed.
Print Assumptions c17_stale_width_refuted.

Example ex_c17_bounds_replaced_history :
  let c0 := CInterval (qc 1 1000) (qc 4 1) in
  let c1 := CInterval (qc 1 1000) (qc 1 2) in
  wf c0 /\ Forall bop_wf [BLoad c1 (inverse_e c1 (EConst (qc 3 10))); BOp (Set_ (qc 4 5)); BOp (Step (EConst (qc 5 1)));
                         BReplace (CGreater (qc 2 1)); BOp (Set_ (qc 3 1))] /\
  interior_q c1 (qc 3 10) = true /\ interior_q c0 (qc 4 5) = true /\ interior_q c1 (qc 4 5) = false /\
  (q (qc 1 2) - q (qc 1 1000) < q (qc 3999 1000))%R.
Proof. exact ex_bhistory. Qed.
Print Assumptions ex_c17_bounds_replaced_history.
