(* C05 — kernel values equal the documented covariance functions and derivative kernels.
   Statement file: theorems, [exact lemma], Print Assumptions.  Nothing else.
   [TE] = executable carrier (expr terms with constant folding), [TR] = Coq reals;
   [upd x i t] = the point x with coordinate i replaced by t. *)
From Coq Require Import Arith List Reals QArith Qcanon.
From Coquelicot Require Import Coquelicot.
From GPV Require Import Base.LinAlg Base.Exec Base.Expr Models.C05_kernels Proofs.C05_kernels
  Proofs.C05_hessian Proofs.C05_den Proofs.C05_newton Proofs.C05_arc.

(* the quadratic-expansion distance of the code (center by the column means of x1, then
   |x|^2 + |y|^2 - 2 x.y) is sum_k (x_k - y_k)^2: every field, every d, n1, n2 *)
Theorem c05_sq_dist_expansion :
  forall (K : Fld) n1 n2 d X1 X2,
    meq n1 n2 (sq_dist_code n1 d X1 X2) (sq_dist_direct d X1 X2).
Proof. intros K. exact (@sq_dist_code_direct K). Qed.
Print Assumptions c05_sq_dist_expansion.

(* ... in fact for ANY adjustment vector, so the centering is only a numerical device *)
Theorem c05_sq_dist_any_adjustment :
  forall (K : Fld) d adj X1 X2 i j,
    sq_dist_expanded d adj X1 X2 i j = sq_dist_direct d X1 X2 i j.
Proof. intros K. exact (@sq_dist_expanded_direct K). Qed.
Print Assumptions c05_sq_dist_any_adjustment.

(* documented per-point interleaved layout: entry (i p + a, j p + b) is output pair (a, b) of
   the point pair (i, j); all i, j (so all n1 != n2), all p *)
Theorem c05_interleaved_index :
  forall (T : TOps) p (E : nat -> nat -> nat -> nat -> tc) i j a b,
    (a < p)%nat -> (b < p)%nat -> interleaved p E (i * p + a) (j * p + b) = E i j a b.
Proof. intros T. exact (@interleaved_index T). Qed.
Print Assumptions c05_interleaved_index.

(* the library's construction - output-major blocks, then the perfect shuffle applied to rows
   (with n1) and to columns (with n2) - is that layout, for all n1, n2, p *)
Theorem c05_shuffle_gives_interleaved :
  forall (T : TOps) n1 n2 p (E : nat -> nat -> nat -> nat -> tc) I J,
    (I < n1 * p)%nat -> (J < n2 * p)%nat ->
    block_major n1 n2 E (shuffle n1 p I) (shuffle n2 p J) = interleaved p E I J.
Proof. intros T. exact (@shuffle_gives_interleaved T). Qed.
Print Assumptions c05_shuffle_gives_interleaved.

(* RBFKernelGrad, every input dimension d, every point, every ARD lengthscale:
   the (d/dx_i, value) output is the partial derivative of the RBF kernel in x_i *)
Theorem c05_rbf_grad_x_block :
  forall d (x y l : nat -> R) i a, (i < d)%nat -> l i <> 0%R ->
    is_derive (fun t => @k_rbf TR d (upd x i t) y l) a
              (@rbf_deriv_entry TR d (upd x i a) y l (S i) 0).
Proof. exact rbf_grad_x. Qed.
Print Assumptions c05_rbf_grad_x_block.

(* the (value, d/dy_j) output is the partial derivative in y_j *)
Theorem c05_rbf_grad_y_block :
  forall d (x y l : nat -> R) j b, (j < d)%nat -> l j <> 0%R ->
    is_derive (fun t => @k_rbf TR d x (upd y j t) l) b
              (@rbf_deriv_entry TR d x (upd y j b) l 0 (S j)).
Proof. exact rbf_grad_y. Qed.
Print Assumptions c05_rbf_grad_y_block.

(* the Hessian block: output (d/dx_i, d/dy_j) is the partial derivative in y_j of output
   (d/dx_i, value), for all i, j (equal or not) *)
Theorem c05_rbf_grad_hessian_block :
  forall d (x y l : nat -> R) i j b, (i < d)%nat -> (j < d)%nat -> l i <> 0%R -> l j <> 0%R ->
    is_derive (fun t => @rbf_deriv_entry TR d x (upd y j t) l (S i) 0) b
              (@rbf_deriv_entry TR d x (upd y j b) l (S i) (S j)).
Proof. exact rbf_grad_xy. Qed.
Print Assumptions c05_rbf_grad_hessian_block.

(* PolynomialKernelGrad: the (d/dx_j, value) output is d/dx_j (x.y + c)^p, every d, p *)
Theorem c05_poly_grad_x_block :
  forall (c : R) pw d (x y : nat -> R) j a, (j < d)%nat ->
    is_derive (fun t => @k_poly TR c pw d (upd x j t) y) a
              (@polygrad_entry TR c pw d (upd x j a) y (S j) 0).
Proof. exact poly_grad_x. Qed.
Print Assumptions c05_poly_grad_x_block.

(* Matern52KernelGrad: the (d/dx_j, value) output is the partial derivative of the Matern-5/2 kernel
   in x_j, every d and ARD lengthscale, EVERY point: coincident points (r = 0, where sqrt is not
   differentiable; the derivative exists and is 0 because k = 1 - O(r^2)) included *)
Theorem c05_matern52_grad_x_block :
  forall d (x y l : nat -> R) j a, (j < d)%nat -> l j <> 0%R ->
    is_derive (fun t => @k_matern TR 5 d (upd x j t) y l) a
              (@m52grad_entry TR d (upd x j a) y l (S j) 0).
Proof. exact m52_grad_x_full. Qed.
Print Assumptions c05_matern52_grad_x_block.

(* the (value, d/dy_i) output is the partial derivative in y_i, every point *)
Theorem c05_matern52_grad_y_block :
  forall d (x y l : nat -> R) i b, (i < d)%nat -> l i <> 0%R ->
    is_derive (fun t => @k_matern TR 5 d x (upd y i t) l) b
              (@m52grad_entry TR d x (upd y i b) l 0 (S i)).
Proof. exact m52_grad_y_full. Qed.
Print Assumptions c05_matern52_grad_y_block.

(* the Hessian block: output (d/dx_j, d/dy_i) is the partial derivative in y_i of output
   (d/dx_j, value), for all i, j (equal or not), every point (coincident points included: there
   the block is 5/(3 l_i^2) on the diagonal and 0 off it) *)
Theorem c05_matern52_grad_hessian_block :
  forall d (x y l : nat -> R) i j b, (i < d)%nat -> (j < d)%nat -> l i <> 0%R ->
    is_derive (fun t => @m52grad_entry TR d x (upd y i t) l (S j) 0) b
              (@m52grad_entry TR d x (upd y i b) l (S j) (S i)).
Proof. exact m52_hess. Qed.
Print Assumptions c05_matern52_grad_hessian_block.

(* PolynomialKernelGrad: the (value, d/dy_i) output and the Hessian block (d/dx_j, d/dy_i) = d/dy_i of
   the (d/dx_j, value) output, every d, every power p (p = 0, 1 included), all i, j *)
Theorem c05_poly_grad_y_block :
  forall (c : R) pw d (x y : nat -> R) i b, (i < d)%nat ->
    is_derive (fun t => @k_poly TR c pw d x (upd y i t)) b
              (@polygrad_entry TR c pw d x (upd y i b) 0 (S i)).
Proof. exact poly_grad_y. Qed.
Print Assumptions c05_poly_grad_y_block.
Theorem c05_poly_grad_hessian_block :
  forall (c : R) pw d (x y : nat -> R) i j b, (i < d)%nat -> (j < d)%nat ->
    is_derive (fun t => @polygrad_entry TR c pw d x (upd y i t) (S j) 0) b
              (@polygrad_entry TR c pw d x (upd y i b) (S j) (S i)).
Proof. exact poly_hess. Qed.
Print Assumptions c05_poly_grad_hessian_block.

(* RBFKernelGrad / RBFKernelGradGrad, ALL blocks.  Output index 0 = value, S i = d/dx_i, S (d + i) =
   d^2/dx_i^2 ([ord d c m] = derivative order that output index c puts on dimension m).
   General step: if a' asks for one more derivative in x_i than a (same in the other dimensions), entry
   (a', b) is the partial derivative in x_i of entry (a, b); likewise in y_j for the second index. *)
Theorem c05_rbf_deriv_step_x :
  forall d (x y l : nat -> R) i a a' b t0, (i < d)%nat -> l i <> 0%R ->
    (forall m, (m < d)%nat -> ord d a' m = (ord d a m + if Nat.eqb m i then 1 else 0)%nat) ->
    (ord d a i + ord d b i <= 3)%nat ->
    is_derive (fun t => @rbf_deriv_entry TR d (upd x i t) y l a b) t0
              (@rbf_deriv_entry TR d (upd x i t0) y l a' b).
Proof. exact rbf_step_x. Qed.
Print Assumptions c05_rbf_deriv_step_x.
Theorem c05_rbf_deriv_step_y :
  forall d (x y l : nat -> R) j a b b' t0, (j < d)%nat -> l j <> 0%R ->
    (forall m, (m < d)%nat -> ord d b' m = (ord d b m + if Nat.eqb m j then 1 else 0)%nat) ->
    (ord d a j + ord d b j <= 3)%nat ->
    is_derive (fun t => @rbf_deriv_entry TR d x (upd y j t) l a b) t0
              (@rbf_deriv_entry TR d x (upd y j t0) l a b').
Proof. exact rbf_step_y. Qed.
Print Assumptions c05_rbf_deriv_step_y.
(* the four instances that generate every block: for EVERY other output index b (resp. a) - value,
   first or second derivative, same dimension or not -
     row block S i       = d/dx_i of row block 0,      row block S (d + i)    = d/dx_i of row block S i,
     column block S j    = d/dy_j of column block 0,   column block S (d + j) = d/dy_j of column block S j.
   So entry (a, b) is D^a_x D^b_y k for all 1 + 2d output indices, mixed fourth derivatives included. *)
Theorem c05_rbf_gradgrad_x_first :
  forall d (x y l : nat -> R) i b t0, (i < d)%nat -> l i <> 0%R ->
    is_derive (fun t => @rbf_deriv_entry TR d (upd x i t) y l 0 b) t0
              (@rbf_deriv_entry TR d (upd x i t0) y l (S i) b).
Proof. exact rbf_x_first. Qed.
Print Assumptions c05_rbf_gradgrad_x_first.
Theorem c05_rbf_gradgrad_x_second :
  forall d (x y l : nat -> R) i b t0, (i < d)%nat -> l i <> 0%R ->
    is_derive (fun t => @rbf_deriv_entry TR d (upd x i t) y l (S i) b) t0
              (@rbf_deriv_entry TR d (upd x i t0) y l (S (d + i)) b).
Proof. exact rbf_x_second. Qed.
Print Assumptions c05_rbf_gradgrad_x_second.
Theorem c05_rbf_gradgrad_y_first :
  forall d (x y l : nat -> R) j a t0, (j < d)%nat -> l j <> 0%R ->
    is_derive (fun t => @rbf_deriv_entry TR d x (upd y j t) l a 0) t0
              (@rbf_deriv_entry TR d x (upd y j t0) l a (S j)).
Proof. exact rbf_y_first. Qed.
Print Assumptions c05_rbf_gradgrad_y_first.
Theorem c05_rbf_gradgrad_y_second :
  forall d (x y l : nat -> R) j a t0, (j < d)%nat -> l j <> 0%R ->
    is_derive (fun t => @rbf_deriv_entry TR d x (upd y j t) l a (S j)) t0
              (@rbf_deriv_entry TR d x (upd y j t0) l a (S (d + j))).
Proof. exact rbf_y_second. Qed.
Print Assumptions c05_rbf_gradgrad_y_second.

(* NewtonGirardAdditiveKernel: the recurrence the library runs (e_deg = 1/deg sum_k (-1)^(k-1) e_(deg-k) s_k
   on the power sums s_k) computes the elementary symmetric polynomial the model's [eval (KNG ..)] uses
   (the documented sum over all k-subsets of dimensions): every degree, every number of dimensions;
   over the reals and for the executed expr terms *)
Theorem c05_newton_girard_is_esp :
  forall (k : nat) (zs : list R), @newton_girard TR k zs = @esp TR k zs.
Proof. exact newton_girard_is_esp. Qed.
Print Assumptions c05_newton_girard_is_esp.
Theorem c05_den_newton_girard_is_esp :
  forall (k : nat) (zs : list expr), den (@newton_girard TE k zs) = den (@esp TE k zs).
Proof. exact den_newton_girard_is_esp. Qed.
Print Assumptions c05_den_newton_girard_is_esp.

(* what is executed is what is proved about: the expr term the model prints for an RBF /
   RBF-grad / RBF-grad-grad entry denotes the real-valued formula on the denoted inputs *)
Theorem c05_den_rbf_deriv_entry :
  forall d (x y l : nat -> expr) a b,
    den (@rbf_deriv_entry TE d x y l a b)
    = @rbf_deriv_entry TR d (fun m => den (x m)) (fun m => den (y m)) (fun m => den (l m)) a b.
Proof. exact den_rbf_deriv_entry. Qed.
Print Assumptions c05_den_rbf_deriv_entry.

(* ... and so does EVERY kernel term of the model (all 22 constructors, nested to any depth, any
   parameter offset): structural induction on the term *)
Theorem c05_den_eval :
  forall k o (x y : list expr),
    den (@eval TE k o x y) = @eval TR k o (List.map den x) (List.map den y).
Proof. exact den_eval. Qed.
Print Assumptions c05_den_eval.
Theorem c05_den_oeval :
  forall k o (x y : list expr),
    den (@oeval TE k o x y) = @oeval TR k o (List.map den x) (List.map den y).
Proof. exact den_oeval. Qed.
Print Assumptions c05_den_oeval.
Theorem c05_den_m52grad_entry :
  forall d (x y l : nat -> expr) a b,
    den (@m52grad_entry TE d x y l a b)
    = @m52grad_entry TR d (fun m => den (x m)) (fun m => den (y m)) (fun m => den (l m)) a b.
Proof. exact den_m52grad_entry. Qed.
Print Assumptions c05_den_m52grad_entry.
Theorem c05_den_polygrad_entry :
  forall c pw d (x y : nat -> expr) a b,
    den (@polygrad_entry TE c pw d x y a b)
    = @polygrad_entry TR (den c) pw d (fun m => den (x m)) (fun m => den (y m)) a b.
Proof. exact den_polygrad_entry. Qed.
Print Assumptions c05_den_polygrad_entry.

(* sums, products and scalings of kernels evaluate to the sums, products and scalings of the
   parts (constant folding included) *)
Theorem c05_sum_kernel :
  forall a b o x y, den (@eval TE (KSum a b) o x y) = (den (@eval TE a o x y) + den (@eval TE b o x y))%R.
Proof. exact den_eval_sum. Qed.
Print Assumptions c05_sum_kernel.
Theorem c05_product_kernel :
  forall a b o x y, den (@eval TE (KProd a b) o x y) = (den (@eval TE a o x y) * den (@eval TE b o x y))%R.
Proof. exact den_eval_prod. Qed.
Print Assumptions c05_product_kernel.
Theorem c05_scale_kernel :
  forall s k o x y, den (@eval TE (KScale s k) o x y) = (Q2R' s * den (@eval TE k o x y))%R.
Proof. exact den_eval_scale. Qed.
Print Assumptions c05_scale_kernel.

(* composition with the PUBLIC operators.  [kobj] models the objects the library builds (AdditiveKernel /
   ProductKernel hold a list of sub-kernels, ScaleKernel wraps one), [op_add] / [op_mul] model
   Kernel.__add__ / Kernel.__mul__ (concatenate the operands, flattening an operand only when it is of the
   operator's own kind).  For ALL operands - leaves, scaled kernels, sums, products, nested to any depth, on
   either side - a + b evaluates to the sum and a * b to the product of the operands' values *)
Theorem c05_operator_add :
  forall a b o x y,
    den (@oeval TE (op_add a b) o x y) = (den (@oeval TE a o x y) + den (@oeval TE b o x y))%R.
Proof. exact den_op_add. Qed.
Print Assumptions c05_operator_add.
Theorem c05_operator_mul :
  forall a b o x y,
    den (@oeval TE (op_mul a b) o x y) = (den (@oeval TE a o x y) * den (@oeval TE b o x y))%R.
Proof. exact den_op_mul. Qed.
Print Assumptions c05_operator_mul.
(* so a product with a sum as its right operand is NOT the product of all the leaves *)
Theorem c05_operator_mul_of_add :
  forall a b c o x y,
    den (@oeval TE (op_mul a (op_add b c)) o x y)
    = (den (@oeval TE a o x y) * (den (@oeval TE b o x y) + den (@oeval TE c o x y)))%R.
Proof. exact den_mul_of_add. Qed.
Print Assumptions c05_operator_mul_of_add.
(* explicit n-ary AdditiveKernel / ProductKernel and ScaleKernel objects, any number of parts *)
Theorem c05_additive_kernel_object :
  forall ks o x y,
    den (@oeval TE (OAdd ks) o x y) = fold_right (fun k acc => (den (@oeval TE k o x y) + acc)%R) 0%R ks.
Proof. exact den_oeval_add. Qed.
Print Assumptions c05_additive_kernel_object.
Theorem c05_product_kernel_object :
  forall ks o x y,
    den (@oeval TE (OMul ks) o x y) = fold_right (fun k acc => (den (@oeval TE k o x y) * acc)%R) 1%R ks.
Proof. exact den_oeval_mul. Qed.
Print Assumptions c05_product_kernel_object.
Theorem c05_scale_kernel_object :
  forall s k o x y, den (@oeval TE (OScale s k) o x y) = (Q2R' s * den (@oeval TE k o x y))%R.
Proof. exact den_oeval_scale. Qed.
Print Assumptions c05_scale_kernel_object.
(* the operators only re-associate: no leaf is lost, duplicated or reordered *)
Theorem c05_operator_leaves :
  forall a b, oleaves (op_add a b) = oleaves a ++ oleaves b /\ oleaves (op_mul a b) = oleaves a ++ oleaves b.
Proof. exact oleaves_ops. Qed.
Print Assumptions c05_operator_leaves.

(* ArcKernel with the constructor option delta_func (act m = value of delta_m at the point, 1 = active,
   0 = inactive), every d, every coordinate: an inactive coordinate embeds as the documented [0, 0], an
   active one as omega [sin(pi rho x / l), cos(pi rho x / l)] *)
Theorem c05_arc_embedding_inactive :
  forall d (rad ang l act x : nat -> R) m, (m < d)%nat -> act m = 0%R ->
    @arc_embed TR d rad ang l act x m = 0%R /\ @arc_embed TR d rad ang l act x (d + m) = 0%R.
Proof. exact arc_inactive. Qed.
Print Assumptions c05_arc_embedding_inactive.
Theorem c05_arc_embedding_active :
  forall d (rad ang l act x : nat -> R) m, (m < d)%nat -> act m = 1%R ->
    @arc_embed TR d rad ang l act x m = (rad m * sin (PI * ang m * (x m / l m)))%R /\
    @arc_embed TR d rad ang l act x (d + m) = (rad m * cos (PI * ang m * (x m / l m)))%R.
Proof. exact arc_active. Qed.
Print Assumptions c05_arc_embedding_active.
(* hence coordinate m contributes to the squared distance of two embedded points (what the base kernel
   sees): omega^2 when it is active in exactly one of them (whatever its values), 0 when inactive in both,
   the chord 2 omega^2 (1 - cos(pi rho (x - y) / l)) when active in both *)
Theorem c05_arc_distance_mixed_activity :
  forall d (rad ang l ax x ay y : nat -> R) m, (m < d)%nat ->
    (ax m = 1%R /\ ay m = 0%R) \/ (ax m = 0%R /\ ay m = 1%R) ->
    arc_contrib d rad ang l ax x ay y m = (rad m ^ 2)%R.
Proof. exact arc_contrib_mixed_either. Qed.
Print Assumptions c05_arc_distance_mixed_activity.
Theorem c05_arc_distance_both_inactive :
  forall d (rad ang l ax x ay y : nat -> R) m, (m < d)%nat -> ax m = 0%R -> ay m = 0%R ->
    arc_contrib d rad ang l ax x ay y m = 0%R.
Proof. exact arc_contrib_both_inactive. Qed.
Print Assumptions c05_arc_distance_both_inactive.
Theorem c05_arc_distance_both_active :
  forall d (rad ang l ax x ay y : nat -> R) m, (m < d)%nat -> ax m = 1%R -> ay m = 1%R -> l m <> 0%R ->
    arc_contrib d rad ang l ax x ay y m
    = (2 * rad m ^ 2 * (1 - cos (PI * ang m * ((x m - y m) / l m))))%R.
Proof. exact arc_contrib_both_active. Qed.
Print Assumptions c05_arc_distance_both_active.

(* non-vacuity: a concrete interleaved index with n1 = 2, n2 = 3, p = 3 *)
Example ex_c05_layout :
  @interleaved TR 3 (fun i j a b => INR (1000 * i + 100 * j + 10 * a + b)) (1 * 3 + 2) (2 * 3 + 1)
  = INR 1221.
Proof. exact (@interleaved_index TR 3 _ 1 2 2 1 (le_n 3) (le_S 2 2 (le_n 2))). Qed.

(* non-vacuity: k1 * (k2 + k3) on constant kernels 2, 3, 5 is 2 * (3 + 5) = 16, not 2 * 3 * 5 *)
Example ex_c05_mul_of_add :
  den (@oeval TE (op_mul (OLeaf (KConst (Q2Qc 2))) (op_add (OLeaf (KConst (Q2Qc 3))) (OLeaf (KConst (Q2Qc 5))))) 0 nil nil)
  = Q2R' (Q2Qc 16).
Proof. exact ex_mul_of_add. Qed.

(* non-vacuity: a coincident point (x = y) in dimension 2, where the Matern theorems now apply *)
Example ex_c05_m52_coincident :
  @sqd TR 2 (upd (fun _ => 1%R) 0 1%R) (fun _ => 1%R) (fun _ => 2%R) = 0%R.
Proof. exact ex_m52_coincident. Qed.

(* non-vacuity: e_2(1, 2, 3) = 1*2 + 1*3 + 2*3 through the Newton-Girard recurrence *)
Example ex_c05_newton_girard :
  @newton_girard TR 2 (1%R :: 2%R :: 3%R :: nil) = 11%R.
Proof. exact ex_newton_girard_3. Qed.

(* non-vacuity: d = 1, omega = 2, coordinate active in x and inactive in y: contribution 2^2 *)
Example ex_c05_arc_mixed :
  arc_contrib 1 (fun _ => 2%R) (fun _ => (1 / 2)%R) (fun _ => 1%R) (fun _ => 1%R) (fun _ => 3%R)
              (fun _ => 0%R) (fun _ => 5%R) 0 = (2 ^ 2)%R.
Proof. exact ex_arc_mixed. Qed.
