(* C05 — kernel values equal the documented covariance functions and derivative kernels.
   Statement file: theorems, [exact lemma], Print Assumptions.  Nothing else.
   [TE] = executable carrier (expr terms with constant folding), [TR] = Coq reals;
   [upd x i t] = the point x with coordinate i replaced by t. *)
From Coq Require Import Arith List Reals QArith Qcanon.
From Coquelicot Require Import Coquelicot.
From GPV Require Import Base.LinAlg Base.Exec Base.Expr Models.C05_kernels Proofs.C05_kernels.

(* the quadratic-expansion distance of the code (center by the column means of x1, then
   |x|^2 + |y|^2 - 2 x.y) is sum_k (x_k - y_k)^2: every field, every d, n1, n2 *)
Theorem c05_sq_dist_expansion :
  forall (K : Fld) n1 n2 d X1 X2,
    meq n1 n2 (sq_dist_code n1 d X1 X2) (sq_dist_direct d X1 X2).
Proof. intros K. exact (@sq_dist_code_direct K). Qed.
Print Assumptions c05_sq_dist_expansion.

(* ... in fact for ANY adjustment vector, so the centering is only a numerical device *)
Theorem c05_sq_dist_any_adjustment :
  forall (K : Fld) d adj X1 X2 i j,
    sq_dist_expanded d adj X1 X2 i j = sq_dist_direct d X1 X2 i j.
Proof. intros K. exact (@sq_dist_expanded_direct K). Qed.
Print Assumptions c05_sq_dist_any_adjustment.

(* documented per-point interleaved layout: entry (i p + a, j p + b) is output pair (a, b) of
   the point pair (i, j); all i, j (so all n1 != n2), all p *)
Theorem c05_interleaved_index :
  forall (T : TOps) p (E : nat -> nat -> nat -> nat -> tc) i j a b,
    (a < p)%nat -> (b < p)%nat -> interleaved p E (i * p + a) (j * p + b) = E i j a b.
Proof. intros T. exact (@interleaved_index T). Qed.
Print Assumptions c05_interleaved_index.

(* the library's construction - output-major blocks, then the perfect shuffle applied to rows
   (with n1) and to columns (with n2) - is that layout, for all n1, n2, p *)
Theorem c05_shuffle_gives_interleaved :
  forall (T : TOps) n1 n2 p (E : nat -> nat -> nat -> nat -> tc) I J,
    (I < n1 * p)%nat -> (J < n2 * p)%nat ->
    block_major n1 n2 E (shuffle n1 p I) (shuffle n2 p J) = interleaved p E I J.
Proof. intros T. exact (@shuffle_gives_interleaved T). Qed.
Print Assumptions c05_shuffle_gives_interleaved.

(* RBFKernelGrad, every input dimension d, every point, every ARD lengthscale:
   the (d/dx_i, value) output is the partial derivative of the RBF kernel in x_i *)
Theorem c05_rbf_grad_x_block :
  forall d (x y l : nat -> R) i a, (i < d)%nat -> l i <> 0%R ->
    is_derive (fun t => @k_rbf TR d (upd x i t) y l) a
              (@rbf_deriv_entry TR d (upd x i a) y l (S i) 0).
Proof. exact rbf_grad_x. Qed.
Print Assumptions c05_rbf_grad_x_block.

(* the (value, d/dy_j) output is the partial derivative in y_j *)
Theorem c05_rbf_grad_y_block :
  forall d (x y l : nat -> R) j b, (j < d)%nat -> l j <> 0%R ->
    is_derive (fun t => @k_rbf TR d x (upd y j t) l) b
              (@rbf_deriv_entry TR d x (upd y j b) l 0 (S j)).
Proof. exact rbf_grad_y. Qed.
Print Assumptions c05_rbf_grad_y_block.

(* the Hessian block: output (d/dx_i, d/dy_j) is the partial derivative in y_j of output
   (d/dx_i, value), for all i, j (equal or not) *)
Theorem c05_rbf_grad_hessian_block :
  forall d (x y l : nat -> R) i j b, (i < d)%nat -> (j < d)%nat -> l i <> 0%R -> l j <> 0%R ->
    is_derive (fun t => @rbf_deriv_entry TR d x (upd y j t) l (S i) 0) b
              (@rbf_deriv_entry TR d x (upd y j b) l (S i) (S j)).
Proof. exact rbf_grad_xy. Qed.
Print Assumptions c05_rbf_grad_hessian_block.

(* PolynomialKernelGrad: the (d/dx_j, value) output is d/dx_j (x.y + c)^p, every d, p *)
Theorem c05_poly_grad_x_block :
  forall (c : R) pw d (x y : nat -> R) j a, (j < d)%nat ->
    is_derive (fun t => @k_poly TR c pw d (upd x j t) y) a
              (@polygrad_entry TR c pw d (upd x j a) y (S j) 0).
Proof. exact poly_grad_x. Qed.
Print Assumptions c05_poly_grad_x_block.

(* Matern52KernelGrad: the (d/dx_j, value) output is the partial derivative of the Matern-5/2 kernel
   in x_j, every d and ARD lengthscale.  Partial: coincident points (r = 0, where sqrt is not
   differentiable and the derivative is the limit 0) are excluded; the Hessian block and
   RBFKernelGradGrad's second-derivative blocks are tested only. *)
Theorem c05_matern52_grad_x_block_partial :
  forall d (x y l : nat -> R) j a, (j < d)%nat -> l j <> 0%R -> (0 < @sqd TR d (upd x j a) y l)%R ->
    is_derive (fun t => @k_matern TR 5 d (upd x j t) y l) a
              (@m52grad_entry TR d (upd x j a) y l (S j) 0).
Proof. exact m52_grad_x. Qed.
Print Assumptions c05_matern52_grad_x_block_partial.

(* what is executed is what is proved about: the expr term the model prints for an RBF /
   RBF-grad / RBF-grad-grad entry denotes the real-valued formula on the denoted inputs *)
Theorem c05_den_rbf_deriv_entry :
  forall d (x y l : nat -> expr) a b,
    den (@rbf_deriv_entry TE d x y l a b)
    = @rbf_deriv_entry TR d (fun m => den (x m)) (fun m => den (y m)) (fun m => den (l m)) a b.
Proof. exact den_rbf_deriv_entry. Qed.
Print Assumptions c05_den_rbf_deriv_entry.

(* sums, products and scalings of kernels evaluate to the sums, products and scalings of the
   parts (constant folding included) *)
Theorem c05_sum_kernel :
  forall a b o x y, den (@eval TE (KSum a b) o x y) = (den (@eval TE a o x y) + den (@eval TE b o x y))%R.
Proof. exact den_eval_sum. Qed.
Print Assumptions c05_sum_kernel.
Theorem c05_product_kernel :
  forall a b o x y, den (@eval TE (KProd a b) o x y) = (den (@eval TE a o x y) * den (@eval TE b o x y))%R.
Proof. exact den_eval_prod. Qed.
Print Assumptions c05_product_kernel.
Theorem c05_scale_kernel :
  forall s k o x y, den (@eval TE (KScale s k) o x y) = (Q2R' s * den (@eval TE k o x y))%R.
Proof. exact den_eval_scale. Qed.
Print Assumptions c05_scale_kernel.

(* composition with the PUBLIC operators.  [kobj] models the objects the library builds (AdditiveKernel /
   ProductKernel hold a list of sub-kernels, ScaleKernel wraps one), [op_add] / [op_mul] model
   Kernel.__add__ / Kernel.__mul__ (concatenate the operands, flattening an operand only when it is of the
   operator's own kind).  For ALL operands - leaves, scaled kernels, sums, products, nested to any depth, on
   either side - a + b evaluates to the sum and a * b to the product of the operands' values *)
Theorem c05_operator_add :
  forall a b o x y,
    den (@oeval TE (op_add a b) o x y) = (den (@oeval TE a o x y) + den (@oeval TE b o x y))%R.
Proof. exact den_op_add. Qed.
Print Assumptions c05_operator_add.
Theorem c05_operator_mul :
  forall a b o x y,
    den (@oeval TE (op_mul a b) o x y) = (den (@oeval TE a o x y) * den (@oeval TE b o x y))%R.
Proof. exact den_op_mul. Qed.
Print Assumptions c05_operator_mul.
(* so a product with a sum as its right operand is NOT the product of all the leaves *)
Theorem c05_operator_mul_of_add :
  forall a b c o x y,
    den (@oeval TE (op_mul a (op_add b c)) o x y)
    = (den (@oeval TE a o x y) * (den (@oeval TE b o x y) + den (@oeval TE c o x y)))%R.
Proof. exact den_mul_of_add. Qed.
Print Assumptions c05_operator_mul_of_add.
(* explicit n-ary AdditiveKernel / ProductKernel and ScaleKernel objects, any number of parts *)
Theorem c05_additive_kernel_object :
  forall ks o x y,
    den (@oeval TE (OAdd ks) o x y) = fold_right (fun k acc => (den (@oeval TE k o x y) + acc)%R) 0%R ks.
Proof. exact den_oeval_add. Qed.
Print Assumptions c05_additive_kernel_object.
Theorem c05_product_kernel_object :
  forall ks o x y,
    den (@oeval TE (OMul ks) o x y) = fold_right (fun k acc => (den (@oeval TE k o x y) * acc)%R) 1%R ks.
Proof. exact den_oeval_mul. Qed.
Print Assumptions c05_product_kernel_object.
Theorem c05_scale_kernel_object :
  forall s k o x y, den (@oeval TE (OScale s k) o x y) = (Q2R' s * den (@oeval TE k o x y))%R.
Proof. exact den_oeval_scale. Qed.
Print Assumptions c05_scale_kernel_object.
(* the operators only re-associate: no leaf is lost, duplicated or reordered *)
Theorem c05_operator_leaves :
  forall a b, oleaves (op_add a b) = oleaves a ++ oleaves b /\ oleaves (op_mul a b) = oleaves a ++ oleaves b.
Proof. exact oleaves_ops. Qed.
Print Assumptions c05_operator_leaves.

(* non-vacuity: a concrete interleaved index with n1 = 2, n2 = 3, p = 3 *)
Example ex_c05_layout :
  @interleaved TR 3 (fun i j a b => INR (1000 * i + 100 * j + 10 * a + b)) (1 * 3 + 2) (2 * 3 + 1)
  = INR 1221.
Proof. exact (@interleaved_index TR 3 _ 1 2 2 1 (le_n 3) (le_S 2 2 (le_n 2))). Qed.

(* non-vacuity: k1 * (k2 + k3) on constant kernels 2, 3, 5 is 2 * (3 + 5) = 16, not 2 * 3 * 5 *)
Example ex_c05_mul_of_add :
  den (@oeval TE (op_mul (OLeaf (KConst (Q2Qc 2))) (op_add (OLeaf (KConst (Q2Qc 3))) (OLeaf (KConst (Q2Qc 5))))) 0 nil nil)
  = Q2R' (Q2Qc 16).
Proof. exact ex_mul_of_add. Qed.
