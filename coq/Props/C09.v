(* C09 — structure-exploiting kernels and prediction strategies equal their dense meaning.
   Statement file: theorems, [exact lemma], Print Assumptions.  Nothing else.
   NOT proved, only tested by the driver: "the interpolated kernel converges to the base kernel as
   the grid is refined" (decreasing error sequence), and the agreement of torch/linear_operator
   numerics (Cholesky, CG, Lanczos) with exact algebra. *)
From Coq Require Import Arith List ZArith QArith Qcanon.
From GPV Require Import Base.LinAlg Base.Exec Models.C01_posterior Proofs.C01_posterior
  Models.C09_structured Proofs.C09_structured Proofs.C09_textbook Models.C09_reeval Proofs.C09_reeval.
Import ListNotations.
Local Open Scope fld_scope.

(* ------------------------------------------------------------------ Kronecker / multitask *)

(* MultitaskKernel: entry ((i,a),(j,b)) of K_x kron (F F^T + diag v), interleaved layout *)
Theorem c09_multitask_entry :
  forall (K : Fld) t r Kx F v i j a b, (a < t)%nat -> (b < t)%nat ->
    multitask_kernel t r Kx F v (i * t + a)%nat (j * t + b)%nat
    = Kx i j * (sum r (fun l => F a l * F b l) + (if Nat.eqb a b then v a else 0)).
Proof. intros K. exact (@multitask_entry K). Qed.
Print Assumptions c09_multitask_entry.

(* IndexKernel and the Hadamard multitask kernel *)
Theorem c09_hadamard_entry :
  forall (K : Fld) r Kx F v i1 i2 a b,
    hadamard_multitask r Kx F v i1 i2 a b
    = Kx a b * (sum r (fun l => F (i1 a) l * F (i2 b) l)
                + (if Nat.eqb (i1 a) (i2 b) then v (i1 a) else 0)).
Proof. intros K. exact (@hadamard_entry K). Qed.
Print Assumptions c09_hadamard_entry.

(* LCM kernel: sum over the latent kernels of K_q[i,j] * B_q[a,b] *)
Theorem c09_lcm_entry :
  forall (K : Fld) t terms i j a b, (a < t)%nat -> (b < t)%nat ->
    lcm_kernel t terms (i * t + a)%nat (j * t + b)%nat = lcm_entry terms i j a b.
Proof. intros K. exact (@lcm_kernel_entry K). Qed.
Print Assumptions c09_lcm_entry.

(* mixed-product property (what Kronecker matmuls / solves rely on) *)
Theorem c09_kron_mixed_product :
  forall (K : Fld) p q s n k A B C D, (0 < s)%nat ->
    meq (n * p) (k * q) (mmul (n * s) (kron p s A B) (kron s q C D))
                        (kron p q (mmul n A C) (mmul s B D)).
Proof. intros K. exact (@kron_mixed_product K). Qed.
Print Assumptions c09_kron_mixed_product.

(* ------------------------------------------------------------------ grid kernel *)

(* Toeplitz: the first row of a stationary (even) kernel on an equispaced grid reproduces the
   whole Gram matrix, for every size *)
Theorem c09_toeplitz_stationary :
  forall (K : Fld) (kappa : car -> car) x0 h n, (forall z, kappa (- z) = kappa z) ->
    meq n n (stationary_gram kappa (equi x0 h)) (toeplitz (toeplitz_first_row kappa (equi x0 h))).
Proof. intros K. exact (@toeplitz_stationary K). Qed.
Print Assumptions c09_toeplitz_stationary.

(* create_data_from_grid: the row at the column-major index of (k_0..k_{d-1}) is
   (grid_0[k_0], ..., grid_{d-1}[k_{d-1}]) *)
Theorem c09_grid_data_row :
  forall (K : Fld) (grids : list (nat -> car)) gs ks, valid_multi gs ks ->
    grid_data_row grids gs (colmajor_index gs ks) = map (fun gk => fst gk (snd gk)) (combine grids ks).
Proof. intros K. exact (@grid_data_row_colmajor K). Qed.
Print Assumptions c09_grid_data_row.

(* GridKernel: K_{d-1} kron ... kron K_0 (KroneckerProductLinearOperator over covars[::-1]) is the
   product kernel on the create_data_from_grid order, any number of dimensions, ragged sizes *)
Theorem c09_grid_kernel_is_product_kernel :
  forall (K : Fld) (fs : list (nat * M)) ks ls,
    valid_multi (map fst fs) ks -> valid_multi (map fst fs) ls ->
    grid_kernel_kron fs (colmajor_index (map fst fs) ks) (colmajor_index (map fst fs) ls)
    = prod_entry fs ks ls.
Proof. intros K. exact (@grid_kernel_kron_colmajor K). Qed.
Print Assumptions c09_grid_kernel_is_product_kernel.

(* column-major index = sum_i k_i * prod_{j<i} g_j *)
Theorem c09_colmajor_is_sum :
  forall gs ks, colmajor_sum 1 gs ks = colmajor_index gs ks.
Proof. exact colmajor_is_sum. Qed.
Print Assumptions c09_colmajor_is_sum.

(* interp_index_matches_grid, CONSISTENT formulation: the lexicographic flat index that
   Interpolation.interpolate assigns to a node (sum_i k_i * prod_{j>i} g_j) addresses the product
   kernel in K_0 kron ... kron K_{d-1}, and decodes back to the node *)
Theorem c09_interp_index_matches_kron_lex :
  forall (K : Fld) (fs : list (nat * M)) ks ls,
    valid_multi (map fst fs) ks -> valid_multi (map fst fs) ls ->
    kron_chain fs (lex_index (map fst fs) ks) (lex_index (map fst fs) ls) = prod_entry fs ks ls.
Proof. intros K. exact (@kron_chain_lex K). Qed.
Print Assumptions c09_interp_index_matches_kron_lex.

Theorem c09_index_roundtrip :
  forall gs ks, valid_multi gs ks ->
    lex_digits gs (lex_index gs ks) = ks /\ colmajor_digits gs (colmajor_index gs ks) = ks
    /\ (lex_index gs ks < prodn gs)%nat /\ (colmajor_index gs ks < prodn gs)%nat.
Proof. exact index_roundtrip. Qed.
Print Assumptions c09_index_roundtrip.

(* interp_index_matches_grid with the pairing the code used up to the fix commit 196a870
   (Interpolation.interpolate's lexicographic index, dimensions in natural order, into GridKernel's
   K_{d-1} kron ... kron K_0 / the rows of create_data_from_grid) is refuted: node (2,3) of a 4x5
   grid gets flat index 13, which is grid point (1,3); the node is row 14.  The repaired pairing
   (dimensions handed over in reverse order) is c09_reversed_lex_index_is_colmajor below; the
   driver's kiss family fails with key kiss-kernel:index-order:... if the old pairing comes back *)
Theorem c09_interp_index_matches_grid_refuted :
  exists gs ks, valid_multi gs ks /\ lex_index gs ks = 13%nat /\ colmajor_index gs ks = 14%nat
                /\ colmajor_digits gs (lex_index gs ks) = [1; 3]%nat.
Proof. exact lex_vs_colmajor_witness. Qed.
Print Assumptions c09_interp_index_matches_grid_refuted.

Theorem c09_interp_kernel_pairing_refuted :
  exists (fs : list (nat * @M QcF)) ks ls,
    valid_multi (map fst fs) ks /\ valid_multi (map fst fs) ls /\
    grid_kernel_kron fs (lex_index (map fst fs) ks) (lex_index (map fst fs) ls)
      <> prod_entry fs ks ls.
Proof. exact lex_into_grid_kernel_kron_witness. Qed.
Print Assumptions c09_interp_kernel_pairing_refuted.

(* the repair of the pairing (/repo fix commit 196a870, in GridInterpolationKernel._compute_grid
   and GridInterpolationVariationalStrategy._compute_grid): handing the
   dimensions to Interpolation.interpolate in REVERSE order turns its lexicographic flat index into
   the column-major index, i.e. (c09_grid_data_row, c09_grid_kernel_is_product_kernel) the row of
   create_data_from_grid holding the node and its position in GridKernel's Kronecker product *)
Theorem c09_reversed_lex_index_is_colmajor :
  forall gs ks, valid_multi gs ks -> lex_index (rev gs) (rev ks) = colmajor_index gs ks.
Proof. exact reversed_lex_is_colmajor. Qed.
Print Assumptions c09_reversed_lex_index_is_colmajor.

(* ------------------------------------------------------------------ cubic interpolation *)

(* the Keys weights sum to one for EVERY relative offset (characteristic <> 2) *)
Theorem c09_cubic_weights_sum_to_one :
  forall (K : Fld) t, (1 + 1 : car) <> 0 ->
    cubic_w t 0 + cubic_w t 1 + cubic_w t 2 + cubic_w t 3 = 1.
Proof. intros K. exact (@cubic_sum_one K). Qed.
Print Assumptions c09_cubic_weights_sum_to_one.

(* exact (one-hot) at grid nodes *)
Theorem c09_cubic_exact_at_nodes :
  forall (K : Fld), (1 + 1 : car) <> 0 ->
    cubic_w 0 0 = 0 /\ cubic_w 0 1 = 1 /\ cubic_w 0 2 = 0 /\ cubic_w 0 3 = 0.
Proof. intros K. exact (@cubic_at_node K). Qed.
Print Assumptions c09_cubic_exact_at_nodes.

(* the branch chosen at the break points |s| = 1, 2 of the Keys kernel is immaterial *)
Theorem c09_keys_branches_meet :
  forall (K : Fld), (1 + 1 : car) <> 0 ->
    keys_inner 1 = 0 /\ keys_outer 1 = 0 /\ keys_outer two = 0 /\ keys_inner 0 = 1.
Proof. intros K. exact (@keys_branches_meet K). Qed.
Print Assumptions c09_keys_branches_meet.

(* every quadratic polynomial is reproduced exactly in the grid interior (no snapping), on any
   equispaced grid, for every cell and offset *)
Theorem c09_cubic_reproduces_quadratics :
  forall (K : Fld) x0 h t lo a b c, (1 + 1 : car) <> 0 ->
    let p := fun z => a + b * z + c * (z * z) in
    let x := equi x0 h (lo + 1) + t * h in
    cubic_w t 0 * p (equi x0 h (lo + 0)) + cubic_w t 1 * p (equi x0 h (lo + 1))
     + cubic_w t 2 * p (equi x0 h (lo + 2)) + cubic_w t 3 * p (equi x0 h (lo + 3)) = p x.
Proof. intros K. exact (@cubic_reproduces_quadratics K). Qed.
Print Assumptions c09_cubic_reproduces_quadratics.

(* boundary snapping yields a one-hot row: it sums to one and picks exactly one node *)
Theorem c09_snapped_row_is_onehot :
  forall (K : Fld) c (f : nat -> car), (c < 4)%nat ->
    onehot c 0 + onehot c 1 + onehot c 2 + onehot c 3 = 1
    /\ onehot c 0 * f 0%nat + onehot c 1 * f 1%nat + onehot c 2 * f 2%nat + onehot c 3 * f 3%nat = f c.
Proof. exact snapped_row_is_onehot. Qed.
Print Assumptions c09_snapped_row_is_onehot.

(* d dimensions: the weights multiply — applying the row to a separable function factorises into
   the one-dimensional interpolations (induction on d) ... *)
Theorem c09_interp_weights_multiply :
  forall (K : Fld) (dims : list (nat * (nat -> car))) (fs : list (nat -> car)),
    length fs = length dims ->
    entries_apply (interp_entries dims) (sep fs) = dim_products dims fs.
Proof. intros K. exact (@interp_entries_separable K). Qed.
Print Assumptions c09_interp_weights_multiply.

(* ... hence every d-dimensional interpolation row sums to one *)
Theorem c09_interp_row_sums_to_one :
  forall (K : Fld) (dims : list (nat * (nat -> car))),
    Forall (fun d => sums_to_one (snd d)) dims -> entries_total (interp_entries dims) = 1.
Proof. intros K. exact (@interp_entries_total_one K). Qed.
Print Assumptions c09_interp_row_sums_to_one.

(* ------------------------------------------------------------------ inducing points / SGPR *)

(* InducingPointKernel = Nystrom matrix K_xz K_zz^-1 K_zx', for ANY root of K_zz^-1 *)
Theorem c09_inducing_point_kernel_is_nystrom :
  forall (K : Fld) a b m r Kxz Kyz R Kzzi, meq m m (mmul r R (mT R)) Kzzi ->
    meq a b (nystrom_root m r Kxz Kyz R) (nystrom m Kxz Kzzi Kyz).
Proof. intros K. exact (@nystrom_root_correct K). Qed.
Print Assumptions c09_inducing_point_kernel_is_nystrom.

(* Woodbury identity, proved from is_inverse *)
Theorem c09_woodbury :
  forall (K : Fld) n m R D Di Ci,
    is_inverse n D Di -> is_inverse m (woodbury_inner n m R Di) Ci ->
    is_inverse n (madd (mmul m R (mT R)) D) (woodbury_inverse n m R Di Ci).
Proof. intros K. exact (@woodbury K). Qed.
Print Assumptions c09_woodbury.

(* SGPR covar_cache = R^T (R R^T + D)^-1 R, any sizes, any invertible D *)
Theorem c09_sgpr_covar_cache :
  forall (K : Fld) n m R D Di Ci Ainv,
    is_inverse n D Di -> is_inverse m (woodbury_inner n m R Di) Ci ->
    is_inverse n (madd (mmul m R (mT R)) D) Ainv ->
    meq m m (sgpr_covar_cache n m R Di Ci) (mmul n (mT R) (mmul n Ainv R)).
Proof. intros K. exact (@sgpr_covar_cache_correct K). Qed.
Print Assumptions c09_sgpr_covar_cache.

(* SGPR predictive covariance = dense conditional for the represented matrices *)
Theorem c09_sgpr_pred_cov_is_dense_conditional :
  forall (K : Fld) n m t Tss L R D Di Ci Ainv,
    is_inverse n D Di -> is_inverse m (woodbury_inner n m R Di) Ci ->
    is_inverse n (madd (mmul m R (mT R)) D) Ainv ->
    meq t t (sgpr_pred_cov n m Tss L R Di Ci) (dense_cov n Tss (mmul m L (mT R)) Ainv).
Proof. intros K. exact (@sgpr_pred_cov_dense K). Qed.
Print Assumptions c09_sgpr_pred_cov_is_dense_conditional.

(* "dense conditional" above IS the C01 closed form on the assembled joint matrix *)
Theorem c09_dense_cov_is_c01 :
  forall (K : Fld) n t Kxx Csx Tss Ainv,
    meq t t (dense_cov n Tss Csx Ainv) (post_cov n (blk n n Kxx (mT Csx) Csx Tss) Ainv).
Proof. intros K. exact (@dense_cov_is_c01 K). Qed.
Print Assumptions c09_dense_cov_is_c01.

Theorem c09_dense_mean_is_c01 :
  forall (K : Fld) n t Kxx Csx Tss Ainv mx ms y,
    meq t 1 (dense_mean n ms Csx Ainv (msub y mx))
            (post_mean n (blk n n Kxx (mT Csx) Csx Tss) (vstack n mx ms) Ainv y).
Proof. intros K. exact (@dense_mean_is_c01 K). Qed.
Print Assumptions c09_dense_mean_is_c01.

(* the textbook SGPR predictive equations (Titsias 2009), with s = test points:
     Sigma = (Kzz + Kzx D^-1 Kxz)^-1,  mean = Ksz Sigma Kzx D^-1 r,
     cov = Kss - Ksz Kzz^-1 Kzs + Ksz Sigma Kzs
   ARE the dense Gaussian conditional for the Nystrom train covariance Q + D and cross covariance
   Ksz Kzz^-1 Kzx:
   all sizes, any invertible (not only homoskedastic) noise D *)
Theorem c09_sgpr_textbook_mean_is_dense_conditional :
  forall (K : Fld) n m t Kzz Kzzi Kxz Ksz D Di Sigma Ainv,
    is_inverse m Kzz Kzzi -> is_inverse n D Di ->
    is_inverse m (sgpr_sigma_arg n m Kzz Kxz Di) Sigma ->
    is_inverse n (madd (nystrom m Kxz Kzzi Kxz) D) Ainv ->
    forall r ms,
    meq t 1 (sgpr_textbook_mean n m Ksz Sigma Kxz Di r ms)
            (dense_mean n ms (nystrom m Ksz Kzzi Kxz) Ainv r).
Proof. intros K. exact (@sgpr_textbook_mean_dense K). Qed.
Print Assumptions c09_sgpr_textbook_mean_is_dense_conditional.

Theorem c09_sgpr_textbook_cov_is_dense_conditional :
  forall (K : Fld) n m t Kzz Kzzi Kxz Ksz Kss D Di Sigma Ainv,
    symmetric m Kzz -> is_inverse m Kzz Kzzi -> is_inverse n D Di ->
    is_inverse m (sgpr_sigma_arg n m Kzz Kxz Di) Sigma ->
    is_inverse n (madd (nystrom m Kxz Kzzi Kxz) D) Ainv ->
    meq t t (sgpr_textbook_cov m Kss Ksz Kzzi Sigma)
            (dense_cov n Kss (nystrom m Ksz Kzzi Kxz) Ainv).
Proof. intros K. exact (@sgpr_textbook_cov_dense K). Qed.
Print Assumptions c09_sgpr_textbook_cov_is_dense_conditional.

(* Titsias regularisation term as coded = -tr(K - Q)/(2 s2) for homoskedastic noise *)
Theorem c09_titsias_trace_term :
  forall (K : Fld) n Kd Q s2, (1 + 1 : car) <> 0 -> s2 <> 0 ->
    titsias_added_loss n Kd Q (fun _ => s2) = - ((sum n Kd - trace n Q) / ((1 + 1) * s2)).
Proof. intros K. exact (@titsias_trace K). Qed.
Print Assumptions c09_titsias_trace_term.

(* ------------------------------------------------------------------ KISS-GP strategy *)

Theorem c09_interp_mean_is_dense_conditional :
  forall (K : Fld) n g t Kuu W Ws Ainv r ms,
    meq t 1 (interp_pred_mean n g Kuu W Ws Ainv r ms) (dense_mean n ms (ski g Ws Kuu W) Ainv r).
Proof. intros K. exact (@interp_pred_mean_dense K). Qed.
Print Assumptions c09_interp_mean_is_dense_conditional.

(* fast_pred_var cache K_uu W^T S, any root S of the inverse train covariance *)
Theorem c09_interp_cov_is_dense_conditional :
  forall (K : Fld) n g q t Tss Kuu W Ws S Ainv, meq n n (mmul q S (mT S)) Ainv ->
    meq t t (interp_pred_cov_root n g q Tss Kuu W Ws S) (dense_cov n Tss (ski g Ws Kuu W) Ainv).
Proof. intros K. exact (@interp_pred_cov_root_dense K). Qed.
Print Assumptions c09_interp_cov_is_dense_conditional.

(* fast_pred_samples: the cached factor is ANY root Rin of Kuu - C C^T (C = the fast_pred_var cache
   Kuu W^T S); the returned Root(Ws Rin) is the dense conditional whose test prior covariance is
   the KISS-GP kernel Ws Kuu Ws^T itself *)
Theorem c09_interp_cov_samples_is_dense_conditional :
  forall (K : Fld) n g q p t Kuu W Ws S Rin Ainv,
    meq n n (mmul q S (mT S)) Ainv ->
    meq g g (mmul p Rin (mT Rin))
            (msub Kuu (mmul q (interp_covar_cache n g Kuu W S) (mT (interp_covar_cache n g Kuu W S)))) ->
    meq t t (interp_pred_cov_samples g p Ws Rin)
            (dense_cov n (ski g Ws Kuu Ws) (ski g Ws Kuu W) Ainv).
Proof. intros K. exact (@interp_pred_cov_samples_dense K). Qed.
Print Assumptions c09_interp_cov_samples_is_dense_conditional.

(* WISKI fantasy update of the W^T D^-1 W cache = the cache of the concatenated data.  The fantasy
   mean and covariance caches built from a root of this matrix are proved below (the three
   c09_wiski_fantasy theorems); what stays tested only is the numerics of the jittered Cholesky
   roots the code takes of W^T D^-1 W and of the inner cache *)
Theorem c09_wiski_inner_update :
  forall (K : Fld) n f g Wt Wft Di Dfi,
    meq g g (wiski_inner (n + f) (hstack n Wt Wft) (blk n n Di mzero mzero Dfi))
            (madd (wiski_inner n Wt Di) (wiski_inner f Wft Dfi)).
Proof. intros K. exact (@wiski_inner_update K). Qed.
Print Assumptions c09_wiski_inner_update.

(* WISKI fantasy_mean_cache as coded: with P = W^T D^-1 W (the updated interp_inner_prod of ALL
   data, by c09_wiski_inner_update), ANY root L of P (the code: jittered Cholesky), the
   response cache c = W^T D^-1 r and Qi = (I + L^T Kuu L)^-1,
       Kuu c - (Kuu L) Qi (L^T Kuu c)
   is the KISS-GP mean cache Kuu W^T (W Kuu W^T + D)^-1 r of the concatenated data, i.e.
   (c09_interp_mean_is_dense_conditional) fantasy predictions are those of conditioning from
   scratch.  First: the coded expression solves (I + Kuu P) x = Kuu c — no invertibility needed *)
Theorem c09_wiski_fantasy_mean_cache_solves :
  forall (K : Fld) n g q Kuu Wt Di L Qi,
    meq g g (mmul q L (mT L)) (wiski_inner n Wt Di) ->
    is_inverse q (madd mI (mmul g (mT L) (mmul g Kuu L))) Qi ->
    forall c,
    meq g 1 (mmul g (madd mI (mmul g Kuu (wiski_inner n Wt Di))) (wiski_fantasy_mean_cache g q Kuu L Qi c))
            (mmul g Kuu c).
Proof. intros K. exact (@wiski_cache_solves K). Qed.
Print Assumptions c09_wiski_fantasy_mean_cache_solves.

Theorem c09_wiski_fantasy_mean_cache_is_kiss_mean_cache :
  forall (K : Fld) n g q Kuu Wt Di D L Qi Ainv,
    is_inverse n D Di ->
    meq g g (mmul q L (mT L)) (wiski_inner n Wt Di) ->
    is_inverse q (madd mI (mmul g (mT L) (mmul g Kuu L))) Qi ->
    is_inverse n (madd (ski g (mT Wt) Kuu (mT Wt)) D) Ainv ->
    forall Bi r,
    is_inverse g (madd mI (mmul g Kuu (wiski_inner n Wt Di))) Bi ->
    meq g 1 (wiski_fantasy_mean_cache g q Kuu L Qi (wiski_response n Wt Di r))
            (interp_mean_cache n g Kuu (mT Wt) Ainv r).
Proof. intros K. exact (@wiski_fantasy_mean_cache_correct K). Qed.
Print Assumptions c09_wiski_fantasy_mean_cache_is_kiss_mean_cache.

(* WISKI fantasy covariance: inner_cache = (Kuu L) Qi (Kuu L)^T as coded (fantasy_covar_cache
   without fast_pred_var; the code then uses a root of it) gives the predictive covariance
   Tss - Ws inner_cache Ws^T = the dense conditional of W Kuu W^T + D on ALL the data *)
Theorem c09_wiski_fantasy_pred_cov_is_dense_conditional :
  forall (K : Fld) n g q Kuu Wt Di D L Qi Ainv,
    is_inverse n D Di ->
    meq g g (mmul q L (mT L)) (wiski_inner n Wt Di) ->
    is_inverse q (madd mI (mmul g (mT L) (mmul g Kuu L))) Qi ->
    is_inverse n (madd (ski g (mT Wt) Kuu (mT Wt)) D) Ainv ->
    symmetric g Kuu ->
    forall Bi, is_inverse g (madd mI (mmul g Kuu (wiski_inner n Wt Di))) Bi ->
    forall t Tss Ws,
    meq t t (wiski_pred_cov g q Kuu L Qi t Tss Ws) (dense_cov n Tss (ski g Ws Kuu (mT Wt)) Ainv).
Proof. intros K. exact (@wiski_pred_cov_dense K). Qed.
Print Assumptions c09_wiski_fantasy_pred_cov_is_dense_conditional.

(* ------------------------------------------------------------------ RFF strategy *)

Theorem c09_rff_cov_is_dense_conditional :
  forall (K : Fld) n q t c F Fs L Ainv,
    meq q q (mmul q L (mT L)) (rff_inner n c F Ainv) ->
    meq t t (rff_pred_cov q c Fs L) (dense_cov n (rff_gram q c Fs Fs) (rff_gram q c Fs F) Ainv).
Proof. intros K. exact (@rff_pred_cov_dense K). Qed.
Print Assumptions c09_rff_cov_is_dense_conditional.

(* ------------------------------------------------------------------ evaluate / change parameters / evaluate again *)

(* InducingPointKernel's two eval-mode caches (K_zz and its inverse root; GridKernel's single cache is f2 = id) under
   every history of evaluations, train(), eval(), parameter assignments made in training mode and load_state_dict in any
   mode: with _clear_cache deleting both slots EVERY evaluation returns the dense meaning g p (f2 (f1 p)) at the
   parameters p current at that moment (any parameter type, any f1 f2 g, histories of any length) *)
Theorem c09_reevaluation_returns_meaning_at_current_parameters :
  forall (P V1 V2 R : Type) (f1 : P -> V1) (f2 : V1 -> V2) (g : P -> V2 -> R) p tr h,
    wf P tr h = true ->
    run P V1 V2 R f1 f2 g true true (init P V1 V2 p tr) h = spec P V1 V2 R f1 f2 g p h.
Proof. exact run_both_spec_init. Qed.
Print Assumptions c09_reevaluation_returns_meaning_at_current_parameters.

(* ... which fails when _clear_cache deletes only the cached matrix: evaluate, train(), new parameters, eval(),
   evaluate pairs the new cross terms with the factor of the old parameters *)
Theorem c09_reevaluation_first_slot_only_refuted :
  let h := [OEval nat; OTrain nat; OSet nat 1%nat; OEvalMode nat; OEval nat] in
  wf nat false h = true /\
  run nat nat nat (nat * nat) (fun p => p) (fun v => v) pair true false (init nat nat nat 0%nat false) h
    = [Some (0, 0); None; None; None; Some (1, 0)]%nat /\
  spec nat nat nat (nat * nat) (fun p => p) (fun v => v) pair 0%nat h
    = [Some (0, 0); None; None; None; Some (1, 1)]%nat.
Proof. exact run_first_slot_only_stale. Qed.
Print Assumptions c09_reevaluation_first_slot_only_refuted.

(* ------------------------------------------------------------------ non-vacuity *)

Example ex_char_not_2 : (@fadd QcF (@f1 QcF) (@f1 QcF)) <> (@f0 QcF).
Proof. exact qc_char_not_2. Qed.
Example ex_woodbury_hypotheses :
  is_inverse 2 exD exDi /\ is_inverse 1 (woodbury_inner 2 1 exR exDi) exCi
  /\ is_inverse 2 (madd (mmul 1 exR (mT exR)) exD) exAinv.
Proof. exact ex_woodbury_hyps. Qed.
Example ex_root_hypothesis :
  meq 1 1 (mmul 1 (of_list [[qc 1 2]]) (mT (of_list [[qc 1 2]]))) (of_list [[qc 1 4]] : @M QcF).
Proof. exact ex_root_hyp. Qed.
Example ex_valid_multi : valid_multi [4; 5]%nat [2; 3]%nat.
Proof. exact ex_valid_multi_45. Qed.
Example ex_sgpr_textbook_hypotheses :
  symmetric 1 tbKzz /\ is_inverse 1 tbKzz tbKzz /\ is_inverse 2 tbD tbDi
  /\ is_inverse 1 (sgpr_sigma_arg 2 1 tbKzz tbKxz tbDi) tbSigma
  /\ is_inverse 2 (madd (nystrom 1 tbKxz tbKzz tbKxz) tbD) tbAinv.
Proof. exact ex_textbook_hyps. Qed.
Example ex_wiski_hypotheses :
  is_inverse 2 tbD tbDi
  /\ meq 2 2 (mmul 2 wkL (mT wkL)) (wiski_inner 2 wkWt tbDi)
  /\ is_inverse 2 (madd mI (mmul 2 (mT wkL) (mmul 2 wkKuu wkL))) wkQi
  /\ is_inverse 2 (madd (ski 2 (mT wkWt) wkKuu (mT wkWt)) tbD) wkAinv
  /\ is_inverse 2 (madd mI (mmul 2 wkKuu (wiski_inner 2 wkWt tbDi))) wkQi
  /\ symmetric 2 wkKuu.
Proof. exact ex_wiski_hyps. Qed.
Example ex_fast_pred_samples_hypotheses :
  meq 1 1 (mmul 1 fsS (mT fsS)) (of_list [[qc 9 25]] : @M QcF) /\
  meq 1 1 (mmul 1 fsRin (mT fsRin))
          (msub fsKuu (mmul 1 (interp_covar_cache 1 1 fsKuu fsKuu fsS)
                              (mT (interp_covar_cache 1 1 fsKuu fsKuu fsS)))).
Proof. exact ex_samples_hyps. Qed.
