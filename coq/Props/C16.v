(* placeholder; replaced below *)
From GPV Require Import Base.LinAlg Models.C16_missing.
