(* C16 — Missing observations (observation_nan_policy 'mask' / 'fill') behave as deletion.
   Statement file: theorems, [exact lemma], Print Assumptions.  Nothing else.
   Vocabulary (Models/C16_missing.v): a tensor with NaNs is [nvec = nat -> option car];
   [is_obs] = ~isnan; [masked]/[mask_rows]/[mask_cols] = MaskedLinearOperator / boolean-mask
   indexing; [fill_kernel], [zero_cols] = the 'fill' code; [del_mean]/[del_cov] = C01's
   posterior of the data set with the NaN observations deleted. *)
From Coq Require Import Arith List.
From GPV Require Import Base.LinAlg Base.Exec Models.C01_posterior Models.C16_missing
  Proofs.C16_missing Models.C16_settings Proofs.C16_settings.

(* the deleted data set's train covariance is the masked operator the code solves with *)
Theorem c16_deleted_train_covar_is_masked :
  forall (K : Fld) n ob KJ S,
    meq (nobs n ob) (nobs n ob) (train_covar (KJ_del n ob KJ) (S_del n ob S))
        (masked n n ob ob (train_covar KJ S)).
Proof. intros K. exact (@del_train_covar K). Qed.
Print Assumptions c16_deleted_train_covar_is_masked.

(* mask_is_deletion, mean: _mean_cache('mask') scattered into a NaN tensor, read back by
   exact_predictive_mean('mask') through the cache's own NaN pattern = deletion mean.
   All n, t, all NaN patterns. *)
Theorem c16_mask_mean_is_deletion :
  forall (K : Fld) n t KJ muJ Aoinv (y : nvec),
    meq t 1 (pred_mean_mask n (Ksx n KJ) (sub n 0 muJ) (mean_cache_mask n Aoinv (offset muJ y)))
            (del_mean n KJ muJ Aoinv y).
Proof. intros K. exact (@mask_mean_is_deletion K). Qed.
Print Assumptions c16_mask_mean_is_deletion.

(* batch mode under 'mask': _get_observed takes the AND over the batch elements, so the mask [ob]
   may hide observed targets of an element as well.  For ANY mask covering the element's NaNs the
   prediction is the posterior mean of the data set with the masked indices deleted; in
   particular every batch element predicts as if the UNION of the missing indices were deleted
   (the reading documented in settings.observation_nan_policy).  The covariance statements above
   and below are already for an arbitrary mask. *)
Theorem c16_mask_any_cover_mean_is_deletion :
  forall (K : Fld) n t ob KJ muJ Aoinv (y : nvec),
    (forall i, i < n -> ob i = true -> is_obs y i = true) ->
    meq t 1 (pred_mean_mask n (Ksx n KJ) (sub n 0 muJ) (mean_cache_mask_ob n ob Aoinv (offset muJ y)))
            (del_mean_ob n ob KJ muJ Aoinv y).
Proof. intros K. exact (@mask_ob_mean_is_deletion K). Qed.
Print Assumptions c16_mask_any_cover_mean_is_deletion.

Theorem c16_batch_mask_mean_is_deletion :
  forall (K : Fld) B n t (ys : nat -> nvec) b KJ muJ Aoinv, b < B ->
    let ob := batch_observed B ys in
    meq t 1 (pred_mean_mask n (Ksx n KJ) (sub n 0 muJ) (mean_cache_mask_ob n ob Aoinv (offset muJ (ys b))))
            (del_mean_ob n ob KJ muJ Aoinv (ys b)).
Proof. intros K. exact (@batch_mask_mean_is_deletion K). Qed.
Print Assumptions c16_batch_mask_mean_is_deletion.

(* mask_is_deletion / fill_is_deletion, covariance: [pred_cov] is exact_predictive_covar AS CODED
   (has_missing dispatch; 'mask' restricts, 'fill' neutralises the train dimension; no NaN: C01's
   formula on the full train covariance).  It is the deletion covariance for every n, t, NaN
   pattern (none included) and either policy. *)
Theorem c16_cov_is_deletion :
  forall (K : Fld) n t p KJ S Ainv Aoinv Afinv (y : nvec),
    let A := train_covar KJ S in let ob := is_obs y in
    is_inverse n A Ainv ->
    is_inverse n (fill_kernel ob A) Afinv ->
    is_inverse (nobs n ob) (masked n n ob ob A) Aoinv ->
    meq t t (pred_cov n p KJ Ainv Aoinv Afinv y) (del_cov n ob KJ Aoinv).
Proof. intros K. exact (@pred_cov_is_deletion K). Qed.
Print Assumptions c16_cov_is_deletion.

(* the two branches separately (any mask [ob], not only one read off targets) *)
Theorem c16_mask_cov_is_deletion :
  forall (K : Fld) n t ob KJ Aoinv,
    meq t t (cov_masked n ob KJ Aoinv) (del_cov n ob KJ Aoinv).
Proof. intros K. exact (@mask_cov_is_deletion K). Qed.
Print Assumptions c16_mask_cov_is_deletion.

(* the result is the same whichever policy is active *)
Theorem c16_cov_policy_irrelevant :
  forall (K : Fld) n t KJ S Ainv Aoinv Afinv (y : nvec),
    let A := train_covar KJ S in let ob := is_obs y in
    is_inverse n A Ainv ->
    is_inverse n (fill_kernel ob A) Afinv ->
    is_inverse (nobs n ob) (masked n n ob ob A) Aoinv ->
    meq t t (pred_cov n PMask KJ Ainv Aoinv Afinv y) (pred_cov n PFill KJ Ainv Aoinv Afinv y).
Proof. intros K. exact (@pred_cov_policy_irrelevant K). Qed.
Print Assumptions c16_cov_policy_irrelevant.

(* the masking is NECESSARY: the covariance formula without it ([cov_unmasked_old] = the code
   before "fix: posterior covariance ignores missing observations ...": every training row used,
   NaN ones included) is not the deletion covariance.  Witness: n = 2, second target NaN, t = 1
   (4/5 vs 7/8).  This is a statement about the OLD code's model, not about [pred_cov]. *)
Theorem c16_cov_without_mask_differs :
  exists (n t : nat) (KJ S Ainv Aoinv : @M QcF) (y : @nvec QcF),
    symmetric (n + t) KJ /\
    is_inverse n (train_covar KJ S) Ainv /\
    is_inverse (nobs n (is_obs y)) (masked n n (is_obs y) (is_obs y) (train_covar KJ S)) Aoinv /\
    ~ meq t t (cov_unmasked_old n KJ Ainv) (del_cov n (is_obs y) KJ Aoinv).
Proof. exact cov_unmasked_old_differs. Qed.
Print Assumptions c16_cov_without_mask_differs.

(* fill_is_deletion, the key fact: with off-diagonal entries of missing rows/columns zeroed
   (diagonal kept) the observed part of the solve is the solve of the deleted system, whatever
   stands in the missing rows of the right-hand side (= any fill value).  Any n, any pattern,
   any number p of right-hand sides. *)
Theorem c16_fill_solve_observed :
  forall (K : Fld) n p ob A Afinv Aoinv B,
    is_inverse n (fill_kernel ob A) Afinv ->
    is_inverse (nobs n ob) (masked n n ob ob A) Aoinv ->
    meq (nobs n ob) p (mask_rows n ob (mmul n Afinv B)) (mmul (nobs n ob) Aoinv (mask_rows n ob B)).
Proof. intros K. exact (@fill_solve_observed K). Qed.
Print Assumptions c16_fill_solve_observed.

(* zeroed test-train columns multiply the missing rows by zero *)
Theorem c16_zero_cols_drop_missing :
  forall (K : Fld) n t p ob T V,
    meq t p (mmul n (zero_cols ob T) V) (mmul (nobs n ob) (mask_cols n ob T) (mask_rows n ob V)).
Proof. intros K. exact (@zero_cols_mmul K). Qed.
Print Assumptions c16_zero_cols_drop_missing.

(* fill_is_deletion, mean: for ANY fill values fv (right-hand side) and fv' (cache read-back) *)
Theorem c16_fill_mean_is_deletion :
  forall (K : Fld) n t KJ muJ S Afinv Aoinv (y : nvec) fv fv',
    let A := train_covar KJ S in let ob := is_obs y in
    is_inverse n (fill_kernel ob A) Afinv ->
    is_inverse (nobs n ob) (masked n n ob ob A) Aoinv ->
    meq t 1 (pred_mean_fill n (Ksx n KJ) (sub n 0 muJ) (mean_cache_fill n Afinv (offset muJ y) fv) fv')
            (del_mean n KJ muJ Aoinv y).
Proof. intros K. exact (@fill_mean_is_deletion K). Qed.
Print Assumptions c16_fill_mean_is_deletion.

(* fill_is_deletion, covariance: the 'fill' branch for any mask [ob] *)
Theorem c16_fill_cov_is_deletion :
  forall (K : Fld) n t ob KJ S Afinv Aoinv,
    let A := train_covar KJ S in
    is_inverse n (fill_kernel ob A) Afinv ->
    is_inverse (nobs n ob) (masked n n ob ob A) Aoinv ->
    meq t t (cov_filled n ob KJ Afinv) (del_cov n ob KJ Aoinv).
Proof. intros K. exact (@fill_cov_is_deletion K). Qed.
Print Assumptions c16_fill_cov_is_deletion.

(* policy_order_irrelevant: after ANY history h of predictions under mask/fill on one model
   object (memo keyed by policy, as _mean_cache is), the next prediction under either policy
   is the deletion mean *)
Theorem c16_policy_order_irrelevant :
  forall (K : Fld) n t KJ muJ S Afinv Aoinv (y : nvec) fv (h : list policy) (p : policy),
    let A := train_covar KJ S in let ob := is_obs y in
    is_inverse n (fill_kernel ob A) Afinv ->
    is_inverse (nobs n ob) (masked n n ob ob A) Aoinv ->
    meq t 1 (snd (predict_step n Aoinv Afinv (Ksx n KJ) (sub n 0 muJ) (offset muJ y) fv
                    (predict_history n Aoinv Afinv (Ksx n KJ) (sub n 0 muJ) (offset muJ y) fv h) p))
            (del_mean n KJ muJ Aoinv y).
Proof. intros K. exact (@policy_order_irrelevant K). Qed.
Print Assumptions c16_policy_order_irrelevant.

(* HISTORIES OF CALLS UNDER CHANGING SETTINGS (Models/C16_settings.v): one eval-mode model object is
   called any number of times under any of the policies 'ignore' (cs_policy = None; with NaN targets
   it returns NaNs), 'mask', 'fill' and with fast_pred_var on or off, in any order; the state of the
   prediction strategy ([pstate]: the per-policy _mean_cache memo, the 'ignore' entry, covar_cache)
   is threaded through.  Whatever that history was - a first call under the default 'ignore'
   included - a call under 'mask' or 'fill' returns a NaN-free mean equal to the deletion mean and
   the deletion covariance. *)
Theorem c16_call_after_any_history_is_deletion :
  forall (K : Fld) n t KJ muJ S Ainv Afinv Aoinv (y : nvec) fv (h : list call_settings) (p : policy) (fpv : bool),
    let A := train_covar KJ S in let ob := is_obs y in
    is_inverse n A Ainv ->
    is_inverse n (fill_kernel ob A) Afinv ->
    is_inverse (nobs n ob) (masked n n ob ob A) Aoinv ->
    let TT := Ksx n KJ in let tm := sub n 0 muJ in let r := offset muJ y in
    let res := snd (call n KJ Ainv Aoinv Afinv TT tm y r fv
                      (call_history n KJ Ainv Aoinv Afinv TT tm y r fv h)
                      {| cs_policy := Some p; cs_fpv := fpv |}) in
    (exists mean, fst res = Some mean /\ meq t 1 mean (del_mean n KJ muJ Aoinv y))
    /\ meq t t (snd res) (del_cov n ob KJ Aoinv).
Proof. intros K. exact (@call_after_history_is_deletion K). Qed.
Print Assumptions c16_call_after_any_history_is_deletion.

(* the covariance a call returns does not depend on the state of the prediction strategy *)
Theorem c16_call_cov_stateless :
  forall (K : Fld) n KJ Ainv Aoinv Afinv TT tm (y r : nvec) fv st st' s,
    snd (snd (call n KJ Ainv Aoinv Afinv TT tm y r fv st s))
    = snd (snd (call n KJ Ainv Aoinv Afinv TT tm y r fv st' s)).
Proof. intros K. exact (@call_cov_stateless K). Qed.
Print Assumptions c16_call_cov_stateless.

(* a NaN mask for the covariance that is memoised at the FIRST call (without the policy in the key)
   is NOT deletion: first call under 'ignore', then 'mask', on the witness data (4/5 vs 7/8).  A
   statement about a reading the code must not have, not about [call]. *)
Theorem c16_cov_mask_memoised_at_first_call_refuted :
  exists (n t : nat) (KJ S Ainv Aoinv Afinv : @M QcF) (y : @nvec QcF) (p : policy),
    is_inverse n (train_covar KJ S) Ainv /\
    is_inverse n (fill_kernel (is_obs y) (train_covar KJ S)) Afinv /\
    is_inverse (nobs n (is_obs y)) (masked n n (is_obs y) (is_obs y) (train_covar KJ S)) Aoinv /\
    ~ meq t t (call_cov_memoised_mask n KJ Ainv Aoinv Afinv y
                 {| cs_policy := None; cs_fpv := false |} {| cs_policy := Some p; cs_fpv := false |})
              (del_cov n (is_obs y) KJ Aoinv).
Proof. exact memoised_mask_differs. Qed.
Print Assumptions c16_cov_mask_memoised_at_first_call_refuted.

(* MLL under 'mask': quadratic form and determinant of the masked marginal are those of the
   deleted data set (so the un-normalised log marginal coincides) ... *)
Theorem c16_mll_mask_is_deletion :
  forall (K : Fld) n KJ muJ S Aoinv (y : nvec),
    let ob := is_obs y in
    mll_quad_mask n muJ Aoinv y = mll_quad_del n muJ Aoinv y
    /\ det (nobs n ob) (masked n n ob ob (train_covar KJ S))
       = det (nobs n ob) (train_covar (KJ_del n ob KJ) (S_del n ob S)).
Proof. intros K. exact (@mll_mask_is_deletion K). Qed.
Print Assumptions c16_mll_mask_is_deletion.

(* ... and the normalised values (divided by N_total resp. N_observed) agree after rescaling *)
Theorem c16_mll_rescaled :
  forall (K : Fld) (u cn ck : car), cn <> f0 -> ck <> f0 ->
    fmul (fdiv u cn) cn = fmul (fdiv u ck) ck.
Proof. intros K. exact (@mll_rescaled K). Qed.
Print Assumptions c16_mll_rescaled.

(* Gaussian expected_log_prob: under 'fill' the observed entries are the deleted data set's,
   the missing entries are 0, for any fill value; hence the sums agree *)
Theorem c16_elp_fill_pointwise :
  forall (K : Fld) n half fv (y : nvec) m v s lg,
    (forall a, a < nobs n (is_obs y) ->
       elp_fill half fv y m v s lg (sel (obs_list n (is_obs y)) a) = elp_del n half y m v s lg a)
    /\ (forall i, is_obs y i = false -> elp_fill half fv y m v s lg i = f0).
Proof. intros K. exact (@elp_fill_pointwise K). Qed.
Print Assumptions c16_elp_fill_pointwise.

Theorem c16_elp_fill_sum_is_deletion :
  forall (K : Fld) n half fv (y : nvec) m v s lg,
    sum n (elp_fill half fv y m v s lg) = sum (nobs n (is_obs y)) (elp_del n half y m v s lg).
Proof. intros K. exact (@elp_fill_sum_is_deletion K). Qed.
Print Assumptions c16_elp_fill_sum_is_deletion.

(* the same for ANY pointwise term [g target index] (log_marginal, expected_log_prob of any
   likelihood with independent noise, ...) and any fill value: entries and sum *)
Theorem c16_pointwise_fill_is_deletion :
  forall (K : Fld) n fv (y : nvec) (g : car -> nat -> car),
    (forall a, a < nobs n (is_obs y) ->
       pointwise_fill fv y g (sel (obs_list n (is_obs y)) a) = pointwise_del n y g a)
    /\ (forall i, is_obs y i = false -> pointwise_fill fv y g i = f0)
    /\ sum n (pointwise_fill fv y g) = sum (nobs n (is_obs y)) (pointwise_del n y g).
Proof. intros K. exact (@pointwise_fill_is_deletion K). Qed.
Print Assumptions c16_pointwise_fill_is_deletion.

(* SENTINEL COLLISIONS.  Missingness is the NaN pattern of the targets ([is_obs]), never their
   value: an observed target is an ordinary datum whatever it is - in particular when it equals
   the fill value - and the 'fill' results do not depend on the fill value *)
Theorem c16_fill_observed_value_is_ordinary :
  forall (K : Fld) fv (y : nvec) (g : car -> nat -> car) i x,
    y i = Some x -> pointwise_fill fv y g i = g x i.
Proof. intros K. exact (@pointwise_fill_observed K). Qed.
Print Assumptions c16_fill_observed_value_is_ordinary.

Theorem c16_fill_value_irrelevant :
  forall (K : Fld) fv fv' (y : nvec) (g : car -> nat -> car) i,
    pointwise_fill fv y g i = pointwise_fill fv' y g i.
Proof. intros K. exact (@pointwise_fill_value_irrelevant K). Qed.
Print Assumptions c16_fill_value_irrelevant.

(* deriving the mask from the FILLED tensor ("target == fill value") is deletion only as long as
   no observed target collides with the fill value ... *)
Theorem c16_fill_by_value_needs_no_collision :
  forall (K : Fld) eqb fv (y : nvec) (g : car -> nat -> car),
    eqb fv fv = true -> (forall i x, y i = Some x -> eqb x fv = false) ->
    forall i, pointwise_fill_by_value eqb fv y g i = pointwise_fill fv y g i.
Proof. intros K. exact (@pointwise_fill_by_value_no_collision K). Qed.
Print Assumptions c16_fill_by_value_needs_no_collision.

(* ... and is refuted when one does (one observed target -999, g = 1: 0 instead of 1), while the
   code's reading ([pointwise_fill], mask = isnan before filling) is deletion on the same data *)
Theorem c16_fill_by_value_refuted :
  exists (n : nat) (fv : Qcanon.Qc) (y : @nvec QcF) (g : Qcanon.Qc -> nat -> Qcanon.Qc),
    is_obs y O = true /\ y O = Some fv /\
    @sum QcF n (@pointwise_fill_by_value QcF Qcanon.Qc_eq_bool fv y g)
    <> @sum QcF (nobs n (is_obs y)) (@pointwise_del QcF n y g) /\
    @sum QcF n (@pointwise_fill QcF fv y g) = @sum QcF (nobs n (is_obs y)) (@pointwise_del QcF n y g).
Proof. exact pointwise_fill_by_value_differs. Qed.
Print Assumptions c16_fill_by_value_refuted.

(* the hypotheses of the fill theorems are satisfiable (the data of c16_cov_without_mask_differs) *)
Example ex_c16_fill_hypotheses :
  exists Afinv : @M QcF,
    is_inverse 2 (fill_kernel (is_obs wit_y) (train_covar wit_KJ wit_S)) Afinv /\
    is_inverse (nobs 2 (is_obs wit_y))
      (masked 2 2 (is_obs wit_y) (is_obs wit_y) (train_covar wit_KJ wit_S)) wit_Aoinv.
Proof. exact ex_fill_hypotheses. Qed.
Print Assumptions ex_c16_fill_hypotheses.

(* ... and of c16_cov_is_deletion, with a missing target; on it the current code's covariance is
   the deletion value 7/8 under both policies, the unmasked formula gives 4/5 *)
Example ex_c16_pred_cov_witness :
  is_inverse 2 (train_covar wit_KJ wit_S) wit_Ainv /\
  is_inverse 2 (fill_kernel (is_obs wit_y) (train_covar wit_KJ wit_S)) wit_Afinv /\
  is_inverse (nobs 2 (is_obs wit_y))
    (masked 2 2 (is_obs wit_y) (is_obs wit_y) (train_covar wit_KJ wit_S)) wit_Aoinv /\
  has_missing 2 wit_y = true /\
  pred_cov 2 PMask wit_KJ wit_Ainv wit_Aoinv wit_Afinv wit_y O O = q7_8 /\
  pred_cov 2 PFill wit_KJ wit_Ainv wit_Aoinv wit_Afinv wit_y O O = q7_8 /\
  cov_unmasked_old 2 wit_KJ wit_Ainv O O = q4_5.
Proof. exact ex_pred_cov_witness. Qed.
Print Assumptions ex_c16_pred_cov_witness.

(* ---- the EXECUTED 'mask' / 'fill' posterior is the REAL-NUMBER deletion posterior (Base/Morph.v,
   Proofs/C16_morph.v).  The driver compares the implementation with the model run on exact rationals; Q2R' is a
   field morphism QcF -> RF commuting with every operation of the model and leaving the NaN pattern alone
   ([nvR] maps the values under Some).  Whenever the wrapper gets past its certificate check(s), the inverse it used
   maps to a real inverse of the real masked (filled) train covariance and what it prints - mean read back through
   the NaN pattern of the cache, covariance, determinant and quadratic form of the log marginal - is, read as reals,
   the real-number posterior / log marginal of the real-number data set with the NaN rows DELETED, for ANY real
   inverse AoR of the real masked train covariance.  Every n, t, every NaN pattern, any fill values. *)
From GPV Require Import Base.Expr Base.Morph Proofs.C01_morph Proofs.C16_morph.

Theorem c16_executed_mask_is_real_deletion :
  forall n t (KJ muJ S : @M QcF) (y : @nvec QcF) Aoinv,
    let ob := @is_obs QcF y in let k := nobs n ob in
    inv_checked k (mat k k (@masked QcF n n ob ob (@train_covar QcF KJ S))) = Some Aoinv ->
    is_inverse k (@masked RF n n ob ob (@train_covar RF (mapR KJ) (mapR S))) (mapR Aoinv) /\
    Q2R' (@det QcF k (mat k k (@masked QcF n n ob ob (@train_covar QcF KJ S))))
      = @det RF k (@masked RF n n ob ob (@train_covar RF (mapR KJ) (mapR S))) /\
    Q2R' (@mll_quad_mask QcF n muJ Aoinv y) = @mll_quad_del RF n (mapR muJ) (mapR Aoinv) (nvR y) /\
    forall AoR : @M RF, is_inverse k (@masked RF n n ob ob (@train_covar RF (mapR KJ) (mapR S))) AoR ->
      meq t 1 (mapR (@pred_mean_mask QcF n (@Ksx QcF n KJ) (@sub QcF n 0 muJ)
                       (@mean_cache_mask QcF n Aoinv (@offset QcF muJ y))))
              (@del_mean RF n (mapR KJ) (mapR muJ) AoR (nvR y)) /\
      meq t t (mapR (@cov_masked QcF n ob KJ Aoinv)) (@del_cov RF n ob (mapR KJ) AoR) /\
      meq t 1 (mapR (@del_mean QcF n KJ muJ Aoinv y)) (@del_mean RF n (mapR KJ) (mapR muJ) AoR (nvR y)) /\
      meq t t (mapR (@del_cov QcF n ob KJ Aoinv)) (@del_cov RF n ob (mapR KJ) AoR).
Proof. exact executed_mask_is_real_deletion. Qed.
Print Assumptions c16_executed_mask_is_real_deletion.

Theorem c16_executed_fill_is_real_deletion :
  forall n t (KJ muJ S : @M QcF) (y : @nvec QcF) Aoinv Afinv fv fv',
    let ob := @is_obs QcF y in let k := nobs n ob in
    inv_checked k (mat k k (@masked QcF n n ob ob (@train_covar QcF KJ S))) = Some Aoinv ->
    inv_checked n (mat n n (@fill_kernel QcF ob (@train_covar QcF KJ S))) = Some Afinv ->
    is_inverse n (@fill_kernel RF ob (@train_covar RF (mapR KJ) (mapR S))) (mapR Afinv) /\
    forall AoR : @M RF, is_inverse k (@masked RF n n ob ob (@train_covar RF (mapR KJ) (mapR S))) AoR ->
      meq t 1 (mapR (@pred_mean_fill QcF n (@Ksx QcF n KJ) (@sub QcF n 0 muJ)
                       (@mean_cache_fill QcF n Afinv (@offset QcF muJ y) fv) fv'))
              (@del_mean RF n (mapR KJ) (mapR muJ) AoR (nvR y)) /\
      meq t t (mapR (@cov_filled QcF n ob KJ Afinv)) (@del_cov RF n ob (mapR KJ) AoR).
Proof. exact executed_fill_is_real_deletion. Qed.
Print Assumptions c16_executed_fill_is_real_deletion.

(* the commutation itself, entrywise and for ANY field morphism (generic, no axioms) *)
Theorem c16_missing_model_commutes_with_field_morphisms :
  forall (K1 K2 : Fld) (phi : @car K1 -> @car K2), FldMorph K1 K2 phi ->
  forall n (KJ muJ TT tm Aoinv Afinv : @M K1) (y r mc : @nvec K1) ob fv i j,
    nvmap phi (@mean_cache_mask K1 n Aoinv r) i = @mean_cache_mask K2 n (mmap phi Aoinv) (nvmap phi r) i /\
    phi (@pred_mean_mask K1 n TT tm mc i j) = @pred_mean_mask K2 n (mmap phi TT) (mmap phi tm) (nvmap phi mc) i j /\
    nvmap phi (@mean_cache_fill K1 n Afinv r fv) i
      = @mean_cache_fill K2 n (mmap phi Afinv) (nvmap phi r) (phi fv) i /\
    phi (@pred_mean_fill K1 n TT tm mc fv i j)
      = @pred_mean_fill K2 n (mmap phi TT) (mmap phi tm) (nvmap phi mc) (phi fv) i j /\
    phi (@cov_masked K1 n ob KJ Aoinv i j) = @cov_masked K2 n ob (mmap phi KJ) (mmap phi Aoinv) i j /\
    phi (@cov_filled K1 n ob KJ Afinv i j) = @cov_filled K2 n ob (mmap phi KJ) (mmap phi Afinv) i j /\
    phi (@del_mean K1 n KJ muJ Aoinv y i j)
      = @del_mean K2 n (mmap phi KJ) (mmap phi muJ) (mmap phi Aoinv) (nvmap phi y) i j /\
    phi (@del_cov K1 n ob KJ Aoinv i j) = @del_cov K2 n ob (mmap phi KJ) (mmap phi Aoinv) i j.
Proof. exact missing_model_commutes_with_field_morphisms. Qed.
Print Assumptions c16_missing_model_commutes_with_field_morphisms.

Example ex_c16_executed_missing_hypotheses :
  (exists Aoinv, inv_checked (nobs 2 (@is_obs QcF wit_y))
     (mat (nobs 2 (@is_obs QcF wit_y)) (nobs 2 (@is_obs QcF wit_y))
        (@masked QcF 2 2 (@is_obs QcF wit_y) (@is_obs QcF wit_y) (@train_covar QcF wit_KJ wit_S))) = Some Aoinv) /\
  (exists Afinv, inv_checked 2 (mat 2 2 (@fill_kernel QcF (@is_obs QcF wit_y) (@train_covar QcF wit_KJ wit_S))) = Some Afinv).
Proof. exact ex_executed_missing_hyp. Qed.
Print Assumptions ex_c16_executed_missing_hypotheses.
