(* C07 — Every covariance handed out is a valid covariance.
   Statement file: theorems, [exact lemma], Print Assumptions.  Nothing else.
   [PSD n A] is the quadratic-form definition: forall x, 0 <= sum_{i,j<n} x_i A_ij x_j, over any
   ordered field [OrdFld] (instances: the reals [ROrd], the executable rationals [QcOrd]). *)
From Coq Require Import Arith List ZArith QArith Qcanon Reals.
From GPV Require Import Base.LinAlg Base.Exec Base.Expr Models.C14_variational Models.C01_posterior
  Models.C04_fantasy Models.C17_constraints Proofs.C17_constraints Models.C07_psd Proofs.C07_psd Proofs.C07_more
  Proofs.C07_gramform Base.Psd Proofs.C07_variational Proofs.C07_real Proofs.C07_policy Proofs.C07_noise.
Import ListNotations.

(* ---- Gram-type kernels are PSD for ALL inputs, sizes, dimensions and admissible parameters - *)
Theorem c07_gram_psd :
  forall (K : Fld) (O : OrdFld K) n r F, PSD n (gram r F).
Proof. intros K O. exact (@PSD_gram K O). Qed.
Print Assumptions c07_gram_psd.

(* LinearKernel (ARD variance v >= 0), any n points in any dimension d *)
Theorem c07_linear_kernel_psd :
  forall (K : Fld) (O : OrdFld K) n d v X,
    (forall l, (l < d)%nat -> fle f0 (v l)) -> PSD n (k_linear d v X).
Proof. intros K O. exact (@k_linear_psd K O). Qed.
Print Assumptions c07_linear_kernel_psd.

(* PolynomialKernel (x x'^T + c)^p, offset c >= 0, every power p *)
Theorem c07_polynomial_kernel_psd :
  forall (K : Fld) (O : OrdFld K) n d c p X, fle f0 c -> PSD n (k_poly d c p X).
Proof. intros K O. exact (@k_poly_psd K O). Qed.
Print Assumptions c07_polynomial_kernel_psd.

(* IndexKernel B B^T + diag(v) evaluated at any index list (repetitions allowed), v >= 0 *)
Theorem c07_index_kernel_psd :
  forall (K : Fld) (O : OrdFld K) n N r B v idx,
    (forall p, (p < N)%nat -> fle f0 (v p)) -> (forall i, (i < n)%nat -> (idx i < N)%nat) ->
    PSD n (k_index r B v idx).
Proof. intros K O. exact (@k_index_psd K O). Qed.
Print Assumptions c07_index_kernel_psd.

Theorem c07_constant_kernel_psd :
  forall (K : Fld) (O : OrdFld K) n c, fle f0 c -> PSD n (k_const c).
Proof. intros K O. exact (@k_const_psd K O). Qed.
Print Assumptions c07_constant_kernel_psd.

(* RFFKernel / SpectralDeltaKernel: (scale) Z Z^T for whatever feature matrix Z *)
Theorem c07_feature_kernel_psd :
  forall (K : Fld) (O : OrdFld K) n r Z s, fle f0 s -> PSD n (k_features r Z s).
Proof. intros K O. exact (@k_features_psd K O). Qed.
Print Assumptions c07_feature_kernel_psd.

(* CosineKernel on d = 1 inputs, every period, every n *)
Theorem c07_cosine_kernel_psd :
  forall n p x, @PSD RF ROrd n (k_cosine p x).
Proof. exact k_cosine_psd. Qed.
Print Assumptions c07_cosine_kernel_psd.

(* closure: AdditiveKernel, ScaleKernel (outputscale >= 0), ProductKernel with a Gram-type factor,
   inducing-point kernel K_xz K_zz^-1 K_zx *)
Theorem c07_sum_psd :
  forall (K : Fld) (O : OrdFld K) n A B, PSD n A -> PSD n B -> PSD n (k_sum A B).
Proof. intros K O. exact (@k_sum_psd K O). Qed.
Print Assumptions c07_sum_psd.

Theorem c07_scale_psd :
  forall (K : Fld) (O : OrdFld K) n s A, fle f0 s -> PSD n A -> PSD n (k_scale s A).
Proof. intros K O. exact (@k_scale_psd K O). Qed.
Print Assumptions c07_scale_psd.

(* every symmetric PSD real matrix is a Gram matrix F F^T, F lower triangular (semi-definite
   Cholesky factorisation; all n).  This is the root the Schur product theorem needs. *)
Theorem c07_psd_has_cholesky :
  forall n (A : @M RF), symmetric n A -> @PSD RF ROrd n A ->
    exists F : @M RF, meq n n A (gram n F) /\ (forall i k, (i < k)%nat -> F i k = 0%R).
Proof. exact psd_has_cholesky. Qed.
Print Assumptions c07_psd_has_cholesky.

Theorem c07_psd_has_gram_form :
  forall n (A : @M RF), symmetric n A -> @PSD RF ROrd n A -> exists F : @M RF, meq n n A (gram n F).
Proof. exact psd_has_gram_form. Qed.
Print Assumptions c07_psd_has_gram_form.

Theorem c07_psd_iff_gram :
  forall n (A : @M RF), (symmetric n A /\ @PSD RF ROrd n A) <-> exists F : @M RF, meq n n A (gram n F).
Proof. exact psd_iff_gram. Qed.
Print Assumptions c07_psd_iff_gram.

(* ProductKernel: the FULL Schur product theorem over R - the entrywise product of ANY two PSD
   matrices (one of them symmetric, as every covariance matrix is) is PSD, all n.  (Symmetry of one
   factor cannot be dropped for the quadratic-form definition: A = B = [[0,1],[-1,0]] have x^T A x = 0
   but A o B = [[0,1],[1,0]] is indefinite.) *)
Theorem c07_product_psd :
  forall n (A B : @M RF), symmetric n A -> @PSD RF ROrd n A -> @PSD RF ROrd n B ->
    @PSD RF ROrd n (k_prod A B).
Proof. exact hadamard_psd. Qed.
Print Assumptions c07_product_psd.

(* entrywise powers A^(o p) of a symmetric PSD matrix (PolynomialKernel on top of any kernel) *)
Theorem c07_hadamard_power_psd :
  forall n (A : @M RF) p, symmetric n A -> @PSD RF ROrd n A -> @PSD RF ROrd n (hpow p A).
Proof. exact hpow_psd. Qed.
Print Assumptions c07_hadamard_power_psd.

(* the same over ANY ordered field (in particular the executable rationals, where no square roots
   exist) when one factor is given as F diag(c) F^T, c >= 0 (Linear, Polynomial base, Index, RFF,
   Cosine, Constant), the other ANY PSD matrix.  (Was c07_product_psd_partial.) *)
Theorem c07_product_psd_wgram_factor :
  forall (K : Fld) (O : OrdFld K) n r F c A B,
    (forall k, (k < r)%nat -> fle f0 (c k)) -> meq n n A (wgram r F c) -> PSD n B ->
    PSD n (k_prod A B).
Proof. intros K O. exact (@k_prod_wgram_psd K O). Qed.
Print Assumptions c07_product_psd_wgram_factor.

Example ex_schur_product_hyps :
  symmetric 2 exH /\ @PSD RF ROrd 2 exH /\ symmetric 2 exG /\ @PSD RF ROrd 2 exG.
Proof. exact ex_schur_product_hyps_holds. Qed.

Theorem c07_inducing_kernel_psd :
  forall (K : Fld) (O : OrdFld K) n m Kxz Kzz_inv, PSD m Kzz_inv -> PSD n (k_inducing m Kxz Kzz_inv).
Proof. intros K O. exact (@k_inducing_psd K O). Qed.
Print Assumptions c07_inducing_kernel_psd.

(* selecting points with repetition (duplicated inputs) keeps a matrix PSD *)
Theorem c07_duplicated_inputs_psd :
  forall (K : Fld) (O : OrdFld K) n N idx B,
    (forall i, (i < n)%nat -> (idx i < N)%nat) -> PSD N B -> PSD n (gather idx idx B).
Proof. intros K O. exact (@PSD_gather K O). Qed.
Print Assumptions c07_duplicated_inputs_psd.

(* Kronecker products, FULL statement over R: PSD (x) PSD is PSD for all sizes p, q (one of the
   two factors symmetric) *)
Theorem c07_kronecker_psd :
  forall p q (A B : @M RF), symmetric p A \/ symmetric q B -> @PSD RF ROrd p A -> @PSD RF ROrd q B ->
    @PSD RF ROrd (p * q) (kprod q A B).
Proof. exact kprod_psd. Qed.
Print Assumptions c07_kronecker_psd.

(* over ANY ordered field with one factor of the form F diag(c) F^T (c >= 0), the other ANY PSD
   matrix.  (Was c07_kronecker_psd_partial.) *)
Theorem c07_kronecker_psd_wgram_factor :
  forall (K : Fld) (O : OrdFld K) p q r F c A B,
    (forall k, (k < r)%nat -> fle f0 (c k)) -> PSD p A -> meq q q B (wgram r F c) ->
    PSD (p * q) (kprod q A B).
Proof. intros K O. exact (@kprod_psd_r K O). Qed.
Print Assumptions c07_kronecker_psd_wgram_factor.

(* MultitaskKernel = K_data (x) (B B^T + diag v): PSD for every PSD data kernel, rank, v >= 0 *)
Theorem c07_multitask_kernel_psd :
  forall (K : Fld) (O : OrdFld K) n T r B v Kdata,
    (forall a, (a < T)%nat -> fle f0 (v a)) -> PSD n Kdata ->
    PSD (n * T) (kprod T Kdata (k_index_full r B v)).
Proof. intros K O. exact (@multitask_kernel_psd K O). Qed.
Print Assumptions c07_multitask_kernel_psd.

(* ---- kernels whose positive-definiteness needs Bochner / Schoenberg (DESIGN 9.1) -------------
   FULL statement (NOT proved, tested by the driver on adversarial inputs with an exact certificate):
     forall n d (X : nat -> nat -> R), PSD n (fun i j => k (X i) (X j))
   for k in RBF, Matern, RQ, Periodic, PiecewisePolynomial, SpectralMixture, Arc, Cylindrical, HammingIMQ.
   Proved: symmetry, unit diagonal and |k(x,y)| <= k(x,x) (every 2x2 Gram matrix is PSD), for all
   inputs, dimensions and admissible hyper-parameters. *)
Theorem c07_rbf_kernel_partial :
  forall l d x y, l <> 0%R ->
    radial (g_rbf l) d x y = radial (g_rbf l) d y x /\ radial (g_rbf l) d x x = 1%R /\
    (Rabs (radial (g_rbf l) d x y) <= radial (g_rbf l) d x x)%R.
Proof. intros l d x y Hl. exact (radial_partial (g_rbf l) d x y (g_rbf_ok l Hl)). Qed.
Print Assumptions c07_rbf_kernel_partial.

Theorem c07_matern12_kernel_partial :
  forall l d x y, (0 < l)%R ->
    radial (g_matern12 l) d x y = radial (g_matern12 l) d y x /\ radial (g_matern12 l) d x x = 1%R /\
    (Rabs (radial (g_matern12 l) d x y) <= radial (g_matern12 l) d x x)%R.
Proof. intros l d x y Hl. exact (radial_partial (g_matern12 l) d x y (g_matern12_ok l Hl)). Qed.
Print Assumptions c07_matern12_kernel_partial.

Theorem c07_matern32_kernel_partial :
  forall l d x y, (0 < l)%R ->
    radial (g_matern32 l) d x y = radial (g_matern32 l) d y x /\ radial (g_matern32 l) d x x = 1%R /\
    (Rabs (radial (g_matern32 l) d x y) <= radial (g_matern32 l) d x x)%R.
Proof. intros l d x y Hl. exact (radial_partial (g_matern32 l) d x y (g_matern32_ok l Hl)). Qed.
Print Assumptions c07_matern32_kernel_partial.

Theorem c07_matern52_kernel_partial :
  forall l d x y, (0 < l)%R ->
    radial (g_matern52 l) d x y = radial (g_matern52 l) d y x /\ radial (g_matern52 l) d x x = 1%R /\
    (Rabs (radial (g_matern52 l) d x y) <= radial (g_matern52 l) d x x)%R.
Proof. intros l d x y Hl. exact (radial_partial (g_matern52 l) d x y (g_matern52_ok l Hl)). Qed.
Print Assumptions c07_matern52_kernel_partial.

Theorem c07_rq_kernel_partial :
  forall alpha l d x y, (0 < alpha)%R -> l <> 0%R ->
    radial (g_rq alpha l) d x y = radial (g_rq alpha l) d y x /\ radial (g_rq alpha l) d x x = 1%R /\
    (Rabs (radial (g_rq alpha l) d x y) <= radial (g_rq alpha l) d x x)%R.
Proof. intros alpha l d x y Ha Hl. exact (radial_partial (g_rq alpha l) d x y (g_rq_ok alpha l Ha Hl)). Qed.
Print Assumptions c07_rq_kernel_partial.

Theorem c07_periodic_kernel_partial :
  forall p l d x y, l <> 0%R ->
    k_periodic p l d x y = k_periodic p l d y x /\ k_periodic p l d x x = 1%R /\
    (Rabs (k_periodic p l d x y) <= k_periodic p l d x x)%R.
Proof. exact k_periodic_partial. Qed.
Print Assumptions c07_periodic_kernel_partial.

(* ---- conditioning never adds uncertainty (the C01 model, every n and t) ------------------- *)
Theorem c07_conditioning_never_adds_uncertainty :
  forall (K : Fld) (O : OrdFld K) n t KJ S Ainv,
    symmetric n (train_covar KJ S) -> PSD n (train_covar KJ S) ->
    is_inverse n (train_covar KJ S) Ainv ->
    PSD t (msub (Kss n KJ) (post_cov n KJ Ainv)).
Proof. intros K O. exact (@conditioning_never_adds_uncertainty K O). Qed.
Print Assumptions c07_conditioning_never_adds_uncertainty.

Theorem c07_posterior_variance_le_prior :
  forall (K : Fld) (O : OrdFld K) n t KJ S Ainv i,
    symmetric n (train_covar KJ S) -> PSD n (train_covar KJ S) ->
    is_inverse n (train_covar KJ S) Ainv -> (i < t)%nat ->
    fle (post_cov n KJ Ainv i i) (Kss n KJ i i).
Proof. intros K O. exact (@posterior_variance_le_prior K O). Qed.
Print Assumptions c07_posterior_variance_le_prior.

Example ex_conditioning_hyps :
  symmetric 1 (train_covar exKJ exS) /\ @PSD RF ROrd 1 (train_covar exKJ exS) /\
  is_inverse 1 (train_covar exKJ exS) exAinv /\
  (0 < msub (Kss 1 exKJ) (post_cov 1 exKJ exAinv) 0%nat 0%nat)%R.
Proof. exact ex_conditioning_hyps_holds. Qed.

(* the posterior covariance itself is PSD whenever the joint covariance of (y, f_star) - the prior
   plus the observation noise on the train block - is symmetric PSD (Schur complement) *)
Theorem c07_posterior_psd :
  forall (K : Fld) (O : OrdFld K) n t KJ S Ainv,
    symmetric (n + t) (joint_obs n KJ S) -> PSD (n + t) (joint_obs n KJ S) ->
    is_inverse n (train_covar KJ S) Ainv ->
    PSD t (post_cov n KJ Ainv).
Proof. intros K O. exact (@posterior_psd K O). Qed.
Print Assumptions c07_posterior_psd.

(* the C01 posterior is the block form used below *)
Theorem c07_post_cov_blocks :
  forall (K : Fld) n KJ Ainv i j,
    post_cov n KJ Ainv i j = post_cov_g n (Kss n KJ) (Ksx n KJ) Ainv i j.
Proof. intros K. exact (@post_cov_is_g K). Qed.
Print Assumptions c07_post_cov_blocks.

(* adding m observations (train covariance bordered by U, Sf) subtracts a PSD matrix from the
   posterior covariance of any t test points: every n, m, t, any inverses *)
Theorem c07_more_data_less_variance :
  forall (K : Fld) (O : OrdFld K) n m t A U Ut Sf Kss X Y Ainv Cinv Binv,
    symmetric (n + m) (bordered n A Ut U Sf) -> PSD (n + m) (bordered n A Ut U Sf) ->
    is_inverse n A Ainv ->
    is_inverse m (schur n U (fant_solve n Ainv Ut) Sf) Cinv ->
    is_inverse (n + m) (bordered n A Ut U Sf) Binv ->
    PSD t (msub (post_cov_g n Kss X Ainv) (post_cov_g (n + m) Kss (hstack n X Y) Binv)).
Proof. intros K O. exact (@more_data_less_variance K O). Qed.
Print Assumptions c07_more_data_less_variance.

Theorem c07_more_data_variance_monotone :
  forall (K : Fld) (O : OrdFld K) n m t A U Ut Sf Kss X Y Ainv Cinv Binv i,
    symmetric (n + m) (bordered n A Ut U Sf) -> PSD (n + m) (bordered n A Ut U Sf) ->
    is_inverse n A Ainv ->
    is_inverse m (schur n U (fant_solve n Ainv Ut) Sf) Cinv ->
    is_inverse (n + m) (bordered n A Ut U Sf) Binv -> (i < t)%nat ->
    fle (post_cov_g (n + m) Kss (hstack n X Y) Binv i i) (post_cov_g n Kss X Ainv i i).
Proof. intros K O. exact (@more_data_variance_monotone K O). Qed.
Print Assumptions c07_more_data_variance_monotone.

(* ---- covariances handed out under observation_nan_policy (exact_predictive_covar) ------------------
   J = joint covariance of (observations y, test values f_star), i.e. prior + noise on the train block;
   obs i = true iff observation i is present.  'fill' decouples the missing observations (train-train rows
   and columns zeroed, diagonal kept, test-train columns zeroed): the result is PSD, below the prior, for
   every n, t and every pattern of missing observations, any inverse of the decoupled train matrix. *)
Theorem c07_fill_policy_posterior_psd :
  forall (K : Fld) (O : OrdFld K) n t obs J Ainv,
    symmetric (n + t) J -> PSD (n + t) J ->
    is_inverse n (decouple obs (sub 0 0 J)) Ainv ->
    PSD t (fill_post_cov n obs (sub n n J) (sub n 0 J) (sub 0 0 J) Ainv).
Proof. intros K O. exact (@fill_posterior_psd K O). Qed.
Print Assumptions c07_fill_policy_posterior_psd.

Theorem c07_fill_policy_never_adds_uncertainty :
  forall (K : Fld) (O : OrdFld K) n t obs Kss X A Ainv,
    symmetric n A -> PSD n A -> is_inverse n (decouple obs A) Ainv ->
    PSD t (msub Kss (fill_post_cov n obs Kss X A Ainv)).
Proof. intros K O. exact (@fill_never_adds_uncertainty K O). Qed.
Print Assumptions c07_fill_policy_never_adds_uncertainty.

Theorem c07_fill_policy_variance_le_prior :
  forall (K : Fld) (O : OrdFld K) n t obs Kss X A Ainv i,
    symmetric n A -> PSD n A -> is_inverse n (decouple obs A) Ainv -> (i < t)%nat ->
    fle (fill_post_cov n obs Kss X A Ainv i i) (Kss i i).
Proof. intros K O. exact (@fill_variance_le_prior K O). Qed.
Print Assumptions c07_fill_policy_variance_le_prior.

(* the decoupling itself keeps a covariance a covariance *)
Theorem c07_decouple_psd :
  forall (K : Fld) (O : OrdFld K) n obs J,
    symmetric n J -> PSD n J -> symmetric n (decouple obs J) /\ PSD n (decouple obs J).
Proof. intros K O n obs J HS HP. split; [exact (@decouple_symmetric K n obs J HS)|exact (@decouple_psd K O n obs J HP)]. Qed.
Print Assumptions c07_decouple_psd.

(* 'mask' selects the k observed rows idx 0 .. idx (k-1) (any selection, repetitions allowed) *)
Theorem c07_mask_policy_posterior_psd :
  forall (K : Fld) (O : OrdFld K) n t k idx J Ainv,
    (forall a, (a < k)%nat -> (idx a < n)%nat) ->
    symmetric (n + t) J -> PSD (n + t) J ->
    is_inverse k (gather idx idx (sub 0 0 J)) Ainv ->
    PSD t (mask_post_cov k idx (sub n n J) (sub n 0 J) Ainv).
Proof. intros K O. exact (@mask_posterior_psd K O). Qed.
Print Assumptions c07_mask_policy_posterior_psd.

Example ex_fill_policy_hyps :
  symmetric 3 exJ3 /\ @PSD RF ROrd 3 exJ3 /\
  is_inverse 2 (decouple exObs (sub 0 0 exJ3)) exAinv3 /\
  fill_post_cov 2 exObs (sub 2 2 exJ3) (sub 2 0 exJ3) (sub 0 0 exJ3) exAinv3 0%nat 0%nat = (/ 2)%R.
Proof. exact ex_fill_policy_hyps_holds. Qed.

(* whitened variational predictive covariance K** + A^T (S - I) A (variational_strategy.py):
   PSD whenever S is and K** - A^T A is (the latter is a Schur complement of the prior) *)
Theorem c07_variational_cov_psd :
  forall (K : Fld) (O : OrdFld K) m t Kss At Sw,
    PSD t (msub Kss (gram m At)) -> PSD m Sw -> PSD t (var_cov m Kss At Sw).
Proof. intros K O. exact (@var_cov_psd K O). Qed.
Print Assumptions c07_variational_cov_psd.

(* UNWHITENED variational predictive covariance K_xx - K_xz K_zz^-1 (K_zz - S) K_zz^-1 K_zx, on the
   C14 model's own definition [unwh_cov] with the blocks addressed as run_c14 does (J = the joint prior
   on [Z; X] with the strategy's jitter): PSD whenever J is symmetric PSD, K_zz invertible (any inverse;
   with J PSD this is the same as K_zz PD) and S is PSD.  All m, n, any ordered field. *)
Theorem c07_unwhitened_variational_cov_psd :
  forall (K : Fld) (O : OrdFld K) m n J Kinv Sq,
    symmetric (m + n) J -> PSD (m + n) J -> is_inverse m (sub 0 0 J) Kinv -> PSD m Sq ->
    PSD n (unwh_cov m (sub 0 0 J) (sub 0 m J) (sub m m J) Kinv Sq).
Proof. intros K O. exact (@unwh_cov_psd K O). Qed.
Print Assumptions c07_unwhitened_variational_cov_psd.

(* the same on explicit blocks *)
Theorem c07_unwhitened_variational_cov_psd_blocks :
  forall (K : Fld) (O : OrdFld K) m n Kzz Kzx Kxz Kxx Kinv Sq,
    symmetric (m + n) (blk m m Kzz Kzx Kxz Kxx) -> PSD (m + n) (blk m m Kzz Kzx Kxz Kxx) ->
    is_inverse m Kzz Kinv -> PSD m Sq ->
    PSD n (unwh_cov m Kzz Kzx Kxx Kinv Sq).
Proof. intros K O. exact (@unwh_cov_psd_blocks K O). Qed.
Print Assumptions c07_unwhitened_variational_cov_psd_blocks.

Theorem c07_unwhitened_variance_nonneg :
  forall (K : Fld) (O : OrdFld K) m n J Kinv Sq i,
    symmetric (m + n) J -> PSD (m + n) J -> is_inverse m (sub 0 0 J) Kinv -> PSD m Sq -> (i < n)%nat ->
    fle f0 (unwh_cov m (sub 0 0 J) (sub 0 m J) (sub m m J) Kinv Sq i i).
Proof. intros K O. exact (@unwh_var_nonneg K O). Qed.
Print Assumptions c07_unwhitened_variance_nonneg.

Example ex_unwh_cov_hyps :
  symmetric 2 exJv /\ @PSD RF ROrd 2 exJv /\ is_inverse 1 (sub 0 0 exJv) exKinv /\
  @PSD RF ROrd 1 exSv /\
  unwh_cov 1 (sub 0 0 exJv) (sub 0 1 exJv) (sub 1 1 exJv) exKinv exSv 0%nat 0%nat = (7 / 4)%R.
Proof. exact ex_unwh_cov_hyps_holds. Qed.

(* positive definiteness (Base/Psd.v): PD n A := PSD n A /\ (x <> 0 -> x^T A x <> 0); the Schur complement
   of a symmetric PD matrix is PD (all sizes, any ordered field) *)
Theorem c07_schur_complement_pd :
  forall (K : Fld) (O : OrdFld K) n t J Ainv,
    symmetric (n + t) J -> PD (n + t) J -> is_inverse n (sub 0 0 J) Ainv ->
    PD t (msub (sub n n J) (mmul n (sub n 0 J) (mmul n Ainv (mT (sub n 0 J))))).
Proof. intros K O. exact (@schur_pd K O). Qed.
Print Assumptions c07_schur_complement_pd.

Example ex_more_data_hyps :
  symmetric 2 exB /\ @PSD RF ROrd 2 exB /\ is_inverse 1 (ex1 2) (ex1 (/ 2)) /\
  is_inverse 1 (schur 1 (ex1 1) (fant_solve 1 (ex1 (/ 2)) (ex1 1)) (ex1 2)) (ex1 (2 / 3)) /\
  is_inverse 2 exB exBinv.
Proof. exact ex_more_data_hyps_holds. Qed.

Example ex_posterior_psd_hyps :
  symmetric 2 (joint_obs 1 exKJ exS) /\ @PSD RF ROrd 2 (joint_obs 1 exKJ exS) /\
  is_inverse 1 (train_covar exKJ exS) exAinv.
Proof. exact ex_posterior_psd_hyps_holds. Qed.

(* ---- reported variances and standard deviations ------------------------------------------- *)
Theorem c07_variance_clamped :
  forall mv d : R,
    (mv <= variance_R mv d /\ d <= variance_R mv d /\ (mv <= d -> variance_R mv d = d))%R.
Proof. exact variance_clamped. Qed.
Print Assumptions c07_variance_clamped.

Theorem c07_stddev_real :
  forall mv d : R, (0 <= mv)%R ->
    (0 <= stddev_R mv d /\ stddev_R mv d * stddev_R mv d = variance_R mv d)%R.
Proof. exact stddev_real. Qed.
Print Assumptions c07_stddev_real.

(* the executable clamp (what the driver compares MultivariateNormal.variance with) *)
Theorem c07_variance_clamp_model :
  forall mv diag,
    length (variance_clamp mv diag) = length diag /\
    forall k, (k < length diag)%nat ->
      let v := nth k (variance_clamp mv diag) 0%Qc in let d := nth k diag 0%Qc in
      (mv <= v)%Qc /\ (d <= v)%Qc /\ ((mv <= d)%Qc -> v = d).
Proof. exact variance_clamp_spec. Qed.
Print Assumptions c07_variance_clamp_model.

(* ---- noise >= the constraint's lower bound ------------------------------------------------- *)
Theorem c07_noise_gt_lower_bound :
  forall lb (x : R), (Q2R' lb < transform_R (CGreater lb) x)%R.
Proof. exact noise_R_gt_lower_bound. Qed.
Print Assumptions c07_noise_gt_lower_bound.

Theorem c07_noise_model_gt_lower_bound :
  forall lb raw, (Q2R' lb < den (noise_e lb raw))%R.
Proof. exact noise_gt_lower_bound. Qed.
Print Assumptions c07_noise_model_gt_lower_bound.

Theorem c07_fixed_noise_clamped :
  forall mn noise k, (k < length noise)%nat -> (mn <= nth k (fixed_noise_clamp mn noise) 0%Qc)%Qc.
Proof. exact fixed_noise_clamp_spec. Qed.
Print Assumptions c07_fixed_noise_clamped.

(* ---- the noise floor of ANY diagonal noise model (heteroskedastic, noise_indices, multitask task noises, fixed + learned):
   K PSD, d_i >= lb >= 0  ==>  K + diag(d) PSD, every marginal variance >= latent variance + lb (all sizes, any ordered field) *)
Theorem c07_marginal_diag_noise_psd :
  forall (K : Fld) (O : OrdFld K) n (Kxx : @M K) (d : nat -> @car K) (lb : @car K),
    PSD n Kxx -> fle f0 lb -> (forall i, (i < n)%nat -> fle lb (d i)) ->
    PSD n (madd Kxx (mdiag d)) /\
    (forall i, (i < n)%nat -> fle (fadd (Kxx i i) lb) (madd Kxx (mdiag d) i i)) /\
    (forall i, (i < n)%nat -> fle f0 (madd Kxx (mdiag d) i i)).
Proof. intros K O. exact (@marginal_diag_noise_psd K O). Qed.
Print Assumptions c07_marginal_diag_noise_psd.

Example ex_noise_floor_hyps :
  @PSD QcF QcOrd 2 (@mdiag QcF (fun _ => 1%Qc)) /\ (@fle QcF QcOrd 0%Qc (Q2Qc (1 # 10000))) /\
  (forall i, (i < 2)%nat -> @fle QcF QcOrd (Q2Qc (1 # 10000)) (if Nat.eqb i 0 then Q2Qc (1 # 10000) else Q2Qc 3)).
Proof. exact ex_noise_floor_hyps_holds. Qed.

Theorem c07_added_noise_minus_floor_psd :
  forall (K : Fld) (O : OrdFld K) n (d : nat -> @car K) (lb : @car K),
    (forall i, (i < n)%nat -> fle lb (d i)) -> PSD n (mdiag (fun i => fsub (d i) lb)).
Proof. intros K O. exact (@added_noise_minus_floor_psd K O). Qed.
Print Assumptions c07_added_noise_minus_floor_psd.

(* HeteroskedasticNoise: noise_i = transform(level_i) for ANY real level (negative included), any selection of outputs *)
Theorem c07_heteroskedastic_marginal_valid :
  forall n (Kxx : @M RF) lb (level : nat -> R),
    @PSD RF ROrd n Kxx -> (0 <= Q2R' lb)%R ->
    let d := fun i => transform_R (CGreater lb) (level i) in
    @PSD RF ROrd n (@madd RF Kxx (@mdiag RF d)) /\
    (forall i, (i < n)%nat -> (Kxx i i + Q2R' lb <= @madd RF Kxx (@mdiag RF d) i i)%R) /\
    (forall i, (i < n)%nat -> (Q2R' lb < d i)%R).
Proof. exact heteroskedastic_marginal_valid. Qed.
Print Assumptions c07_heteroskedastic_marginal_valid.

Theorem c07_interval_noise_in_bounds :
  forall l u (x : R), (Q2R' l < Q2R' u)%R -> (Q2R' l < transform_R (CInterval l u) x < Q2R' u)%R.
Proof. exact interval_noise_in_bounds. Qed.
Print Assumptions c07_interval_noise_in_bounds.

Theorem c07_heteroskedastic_interval_marginal_valid :
  forall n (Kxx : @M RF) l u (level : nat -> R),
    @PSD RF ROrd n Kxx -> (0 <= Q2R' l)%R -> (Q2R' l < Q2R' u)%R ->
    let d := fun i => transform_R (CInterval l u) (level i) in
    @PSD RF ROrd n (@madd RF Kxx (@mdiag RF d)) /\
    (forall i, (i < n)%nat -> (Kxx i i + Q2R' l <= @madd RF Kxx (@mdiag RF d) i i)%R).
Proof. exact heteroskedastic_interval_marginal_valid. Qed.
Print Assumptions c07_heteroskedastic_interval_marginal_valid.

(* ---- the certificate the correspondence runs on the implementation's matrices -------------- *)
Theorem c07_psd_certificate_sound :
  forall n A Lf, psd_cert n A Lf = true -> @PSD QcF QcOrd n A.
Proof. exact psd_cert_sound. Qed.
Print Assumptions c07_psd_certificate_sound.

Theorem c07_run_psd_sound :
  forall n rows shift lf,
    run_job (JPsd n rows shift lf) = [1%Z; 1%Z] ->
    symmetric n (@of_list QcF rows) /\
    @PSD QcF QcOrd n (@madd QcF (@of_list QcF rows) (@mscale QcF shift (@mI QcF))).
Proof. exact run_psd_sound. Qed.
Print Assumptions c07_run_psd_sound.
