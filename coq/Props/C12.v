(* C12 — Gaussian-family likelihoods add exactly the specified noise, integrate exactly.
   Statement file: theorems, [exact lemma], Print Assumptions.  Nothing else. *)
From Coq Require Import Arith List Reals QArith Qcanon.
From GPV Require Import Base.LinAlg Base.Exec Base.Expr Models.C12_noise Proofs.C12_kron
  Proofs.C12_noise Proofs.C12_hist.
Import ListNotations.

(* marginal (m, C) |-> (m, C + R): the mean is untouched and R is added exactly once *)
Theorem c12_marginal_adds_noise_once :
  forall (K : Fld) N (m C R : M),
    meq N 1 (marginal_mean m) m /\ meq N N (msub (marginal_cov C R) C) R.
Proof. intros K N m C R. split; [apply marginal_mean_unchanged|apply marginal_adds_once]. Qed.
Print Assumptions c12_marginal_adds_noise_once.

(* homoskedastic: R = s2 I *)
Theorem c12_homoskedastic_noise :
  forall (K : Fld) (s2 : car) i j, R_homo s2 i j = if Nat.eqb i j then s2 else f0.
Proof. intros K. exact (@R_homo_entry K). Qed.
Print Assumptions c12_homoskedastic_noise.

(* fixed noise, no call-time noise, sizes match: R = diag(stored) + [learned] I *)
Theorem c12_fixed_noise_stored :
  forall (K : Fld) n stored l i j,
    R_fixed n n stored None l i j = if Nat.eqb i j then fadd (stored i) (opt0 l) else f0.
Proof. intros K. exact (@R_fixed_stored K). Qed.
Print Assumptions c12_fixed_noise_stored.

(* call-time noise replaces the stored fixed noise; the learned part is kept, added once *)
Theorem c12_call_noise_replaces_stored :
  forall (K : Fld) n len stored c l i j,
    R_fixed n len stored (Some c) l i j = if Nat.eqb i j then fadd (c i) (opt0 l) else f0.
Proof. intros K. exact (@R_fixed_call K). Qed.
Print Assumptions c12_call_noise_replaces_stored.

(* get_fantasy_likelihood(noise=new): the likelihood of the n old points followed by the m appended points
   adds diag([old noise; new noise]) + [learned] I: entries, and as the block diagonal of the two
   likelihoods' own noise operators (old points first).  All n, m. *)
Theorem c12_fantasy_noise_concatenated :
  forall (K : Fld) n m old new l i j,
    R_fantasy n m old new l i j =
    if Nat.eqb i j then fadd (if Nat.ltb i n then old i else new (i - n)%nat) (opt0 l) else f0.
Proof. intros K. exact (@R_fantasy_entry K). Qed.
Print Assumptions c12_fantasy_noise_concatenated.

Theorem c12_fantasy_noise_blocks :
  forall (K : Fld) n m old new l,
    meq (n + m) (n + m) (R_fantasy n m old new l)
        (blk n n (R_fixed n n old None l) mzero mzero (R_fixed m m new None l)).
Proof. intros K. exact (@R_fantasy_blocks K). Qed.
Print Assumptions c12_fantasy_noise_blocks.

(* a fantasy likelihood of a fantasy likelihood stores old ++ new1 ++ new2 *)
Theorem c12_fantasy_noise_twice :
  forall (K : Fld) n m1 m2 old new1 new2 l,
    meq (n + m1 + m2) (n + m1 + m2)
        (R_fantasy (n + m1) m2 (cat_fn n old new1) new2 l)
        (R_fantasy n (m1 + m2) old (cat_fn m1 new1 new2) l).
Proof. intros K. exact (@R_fantasy_twice K). Qed.
Print Assumptions c12_fantasy_noise_twice.

(* storing [new noise; old noise] instead is a different operator (witness: 1 + 1 points, 1/4 and 3) *)
Theorem c12_fantasy_new_first_refuted :
  exists (old new : nat -> Qc),
    R_fixed (K:=QcF) 2%nat 2%nat (cat_fn (K:=QcF) 1%nat new old) None None O O
    <> R_fantasy (K:=QcF) 1%nat 1%nat old new None O O.
Proof. exact R_fantasy_new_first_refuted. Qed.
Print Assumptions c12_fantasy_new_first_refuted.

(* forwarding the call-time kwarg to the learned-noise module too (pinned snapshot of
   FixedNoiseGaussianLikelihood._shaped_noise_covar) violates the specification: witness
   noise = [2/5], learned 1/20 gives 4/5 instead of 9/20 *)
Theorem c12_forwarding_call_noise_refuted :
  exists (c : nat -> Qc) (s : Qc),
    R_fixed_forwarding (K:=QcF) 1%nat 1%nat (fun _ => 0%Qc) (Some c) (Some s) O O
    <> R_fixed (K:=QcF) 1%nat 1%nat (fun _ => 0%Qc) (Some c) (Some s) O O.
Proof. exact R_fixed_forwarding_refuted. Qed.
Print Assumptions c12_forwarding_call_noise_refuted.

(* multitask, interleaved input: block (i,j) of R is delta_ij D_t, D_t = (diag d | F F^T) [+ s2 I] *)
Theorem c12_multitask_entries_interleaved :
  forall (K : Fld) n t r d F g i j a b, (a < t)%nat -> (b < t)%nat ->
    R_mt n t r true true d F g (i * t + a)%nat (j * t + b)%nat
    = if Nat.eqb i j then Dt r d F g a b else f0.
Proof. intros K. exact (@R_mt_entry_il K). Qed.
Print Assumptions c12_multitask_entries_interleaved.

(* multitask, non-interleaved input: entry ((a,i),(b,j)) is delta_ij D_t[a,b] *)
Theorem c12_multitask_entries_noninterleaved :
  forall (K : Fld) n t r d F g i j a b, (i < n)%nat -> (j < n)%nat ->
    R_mt n t r true false d F g (a * n + i)%nat (b * n + j)%nat
    = if Nat.eqb i j then Dt r d F g a b else f0.
Proof. intros K. exact (@R_mt_entry_nil K). Qed.
Print Assumptions c12_multitask_entries_noninterleaved.

(* layout theorem: for all n, t the noise added to an interleaved input is the perfect-shuffle
   conjugate of the one added to a non-interleaved input, and the shuffle is a bijection of
   [0, n t) whose inverse is the shuffle with n and t exchanged *)
Theorem c12_kron_layout :
  forall (K : Fld) n t (D : M),
    meq (n * t) (n * t) (R_mt_il t D) (gather (shuf n t) (shuf n t) (R_mt_nil n D))
    /\ (forall k, (k < n * t)%nat -> (shuf n t k < n * t)%nat /\ shuf t n (shuf n t k) = k).
Proof.
  intros K n t D. split; [apply kron_layout|].
  intros k Hk. split; [apply shuf_lt|apply shuf_inv]; exact Hk.
Qed.
Print Assumptions c12_kron_layout.

(* task covariance for rank 0 / rank r, with the global noise inside (as the code's comment
   claims: I (x) D + s2 I = I (x) (D + s2 I)) *)
Theorem c12_task_covariance :
  forall (K : Fld) r d F g a b,
    Dt O d F g a b = (if Nat.eqb a b then fadd (d a) (opt0 g) else f0) /\
    Dt (S r) d F g a b
    = fadd (sum (S r) (fun k => fmul (F a k) (F b k))) (if Nat.eqb a b then opt0 g else f0).
Proof. intros K r d F g a b. split; [apply Dt_rank0_entry|apply Dt_rank_r_entry]. Qed.
Print Assumptions c12_task_covariance.

Theorem c12_global_noise_moves_inside :
  forall (K : Fld) n t r d F s k l, (0 < n)%nat -> (0 < t)%nat ->
    R_mt n t r true true d F (Some s) k l
      = madd (R_mt n t r true true d F None) (R_homo s) k l /\
    R_mt n t r true false d F (Some s) k l
      = madd (R_mt n t r true false d F None) (R_homo s) k l.
Proof.
  intros K n t r d F s k l Hn Ht.
  split; [apply R_mt_global_inside_il; exact Ht|apply R_mt_global_inside_nil; exact Hn].
Qed.
Print Assumptions c12_global_noise_moves_inside.

(* the Gaussian log density is a polynomial of degree 2 in f ... *)
Theorem c12_loglik_is_quadratic :
  forall y r f, (0 < r)%R -> peval2 (loglik_poly y r) f = ln (normal_pdf y f r).
Proof. exact loglik_poly_is_log_density. Qed.
Print Assumptions c12_loglik_is_quadratic.

(* ... E2 m v is the unique linear functional on such polynomials with E 1 = 1, E f = m,
   E (f-m)^2 = v (the first two moments of N(m, v)) ... *)
Theorem c12_moment_functional_unique :
  forall m v (Lf : poly2 -> R),
    (forall a p q, Lf (padd2 (pscale2 a p) q) = (a * Lf p + Lf q)%R) ->
    Lf (1, 0, 0)%R = 1%R -> Lf (0, 1, 0)%R = m -> Lf (m * m, - (2 * m), 1)%R = v ->
    forall p, Lf p = E2 m v p.
Proof. exact E2_unique. Qed.
Print Assumptions c12_moment_functional_unique.

(* ... and the printed expected_log_prob term is that expectation of the log density, which
   is the code's formula -1/2 (((y-m)^2 + v)/r + ln r + ln 2pi) *)
Theorem c12_expected_log_prob :
  forall y m v r : expr, (0 < den r)%R ->
    den (elp_expr y m v r) = E2 (den m) (den v) (loglik_poly (den y) (den r)) /\
    den (elp_expr y m v r)
    = (- / 2 * (((den y - den m) * (den y - den m) + den v) / den r + ln (den r) + ln (2 * PI)))%R.
Proof.
  intros y m v r Hr. split; [apply elp_expr_correct; apply Rgt_not_eq; exact Hr
                            |apply elp_expr_code_formula].
Qed.
Print Assumptions c12_expected_log_prob.

(* log_marginal elementwise: ln N(y | m, v + r) *)
Theorem c12_log_marginal :
  forall y m v r : expr, (0 < den v + den r)%R ->
    den (lm_expr y m v r) = ln (normal_pdf (den y) (den m) (den v + den r)).
Proof. exact lm_expr_correct. Qed.
Print Assumptions c12_log_marginal.

(* LikelihoodList: member k is applied to argument k (and noise k), lists of any length;
   defined exactly when the lengths agree *)
Theorem c12_likelihood_list_routes :
  forall (L A N O : Type) (f : L -> A -> option N -> O) ls xs ns r,
    list_call f ls xs ns = Some r ->
    length r = length ls /\
    forall k dl dx dn dr, (k < length ls)%nat ->
      nth k r dr = f (nth k ls dl) (nth k xs dx)
                     (match ns with Some l => Some (nth k l dn) | None => None end).
Proof. intros L A N O. exact (@list_call_routes L A N O). Qed.
Print Assumptions c12_likelihood_list_routes.

Theorem c12_likelihood_list_defined :
  forall (L A N O : Type) (f : L -> A -> option N -> O) ls xs ns,
    length xs = length ls ->
    (match ns with Some l => length l = length ls | None => True end) ->
    exists r, list_call f ls xs ns = Some r.
Proof. intros L A N O. exact (@list_call_defined L A N O). Qed.
Print Assumptions c12_likelihood_list_defined.

(* ---- specification histories: R depends only on the LAST specification of each component ---- *)

(* FixedNoiseGaussianLikelihood, any history of constructor / setter / initialize / raw parameter /
   get_fantasy_likelihood operations (any length): re-specifying the fixed noise forgets everything
   specified for it before (ops1 and the earlier state are irrelevant), operations on the learned
   noise do not touch it, and a fantasy step appends the rounded-up new noise *)
Theorem c12_history_fixed_part_last_specification :
  forall (K : Fld) (clampf : car -> car) ops1 v ops2 st l nw,
    st_fixed (spec_run clampf (ops1 ++ OpFixed v :: ops2) st)
      = st_fixed (spec_run clampf ops2 (mk_nstate v l)) /\
    (Forall is_second ops2 -> st_fixed (spec_run clampf (ops1 ++ OpFixed v :: ops2) st) = v) /\
    st_fixed (spec_run clampf (ops1 ++ [OpFantasy nw]) st)
      = st_fixed (spec_run clampf ops1 st) ++ map clampf nw.
Proof.
  intros K clampf ops1 v ops2 st l nw. split; [apply spec_fixed_forgets|].
  split; [apply spec_last_fixed|apply spec_fantasy_appends].
Qed.
Print Assumptions c12_history_fixed_part_last_specification.

(* the learned noise is the one of the last second_noise specification (if the likelihood has a learned
   noise at all; otherwise it never gets one), whatever happened to the fixed part *)
Theorem c12_history_learned_part_last_specification :
  forall (K : Fld) (clampf : car -> car) ops1 s ops2 st,
    (st_learned st <> None -> Forall not_second ops2 ->
       st_learned (spec_run clampf (ops1 ++ OpSecond s :: ops2) st) = Some s) /\
    (st_learned st = None -> st_learned (spec_run clampf ops1 st) = None).
Proof.
  intros K clampf ops1 s ops2 st. split; [apply spec_last_second|apply spec_learned_absent].
Qed.
Print Assumptions c12_history_learned_part_last_specification.

(* what is added after `lik.noise = v` (then any number of learned-noise updates), after any history:
   diag(v) + sigma^2 I with the CURRENT learned sigma^2; and a call-time noise replaces the fixed part of
   any state exactly as passed (no floor), the learned part is kept *)
Theorem c12_history_noise_after_respecification :
  forall (K : Fld) (clampf : car -> car) ops1 v ops2 st i j, Forall is_second ops2 ->
    R_hist (length v) (spec_run clampf (ops1 ++ OpFixed v :: ops2) st) None i j
    = if Nat.eqb i j
      then fadd (nth i v f0) (opt0 (st_learned (spec_run clampf (ops1 ++ OpFixed v :: ops2) st)))
      else f0.
Proof. intros K clampf ops1 v ops2 st i j H. exact (R_hist_after_respecification clampf ops1 v ops2 st i j H). Qed.
Print Assumptions c12_history_noise_after_respecification.

Theorem c12_history_call_noise_exact :
  forall (K : Fld) N st c i j,
    R_hist N st (Some c) i j = if Nat.eqb i j then fadd (c i) (opt0 (st_learned st)) else f0.
Proof. intros K. exact (@R_hist_call K). Qed.
Print Assumptions c12_history_call_noise_exact.

Example ex_c12_history : Forall (@is_second QcF) [qOpSecond (qc 1 8); qOpSecond (qc 1 4)].
Proof. repeat constructor. Qed.

(* storing value - sigma^2 through the setter is refuted by the model: [1/2], sigma^2 = 1/8 *)
Theorem c12_setter_minus_second_refuted :
  exists (v : Qc) (s : Qc),
    R_hist (K:=QcF) 1%nat (mk_nstate (K:=QcF) [(v - s)%Qc] (Some s)) None O O
    <> R_hist (K:=QcF) 1%nat
         (spec_run (K:=QcF) (fun x => x) [qOpFixed [v]] (mk_nstate (K:=QcF) [v] (Some s))) None O O.
Proof. exact R_hist_setter_minus_second_refuted. Qed.
Print Assumptions c12_setter_minus_second_refuted.

(* construction-time rounding (settings.min_fixed_noise): every stored value is >= the floor and values
   at or above the floor are stored exactly *)
Theorem c12_constructor_floor :
  forall floor v : Qc, (floor <= qc_clamp floor v)%Qc /\ ((floor <= v)%Qc -> qc_clamp floor v = v).
Proof. intros floor v. split; [apply qc_clamp_ge|apply qc_clamp_id]. Qed.
Print Assumptions c12_constructor_floor.

(* plain-parameter likelihoods (GaussianLikelihood.noise; MultitaskGaussianLikelihood noise / task_noises /
   task_noise_covar_factor): each component holds the value of the last operation that addressed it *)
Theorem c12_parameter_last_specification :
  forall (K : Fld) ops1 ops2 st (s : car) d F,
    (mt_glob st <> None -> Forall (fun op => ~ addresses_glob op) ops2 ->
       mt_glob (mt_run (ops1 ++ MGlob s :: ops2) st) = Some s) /\
    (Forall (fun op => ~ addresses_task op) ops2 -> mt_d (mt_run (ops1 ++ MTask d :: ops2) st) = d) /\
    (Forall (fun op => ~ addresses_factor op) ops2 -> mt_F (mt_run (ops1 ++ MFactor F :: ops2) st) = F) /\
    (forall (V : Type) (init v : V) ops, last_spec init (ops ++ [v]) = v).
Proof.
  intros K ops1 ops2 st s d F. split; [apply mt_last_glob|]. split; [apply mt_last_task|].
  split; [apply mt_last_factor|]. intros V init v ops. apply last_spec_app.
Qed.
Print Assumptions c12_parameter_last_specification.

(* LikelihoodList with a noise list containing None entries (any positions, any length): member k with a
   None entry is called without call-time noise — it never inherits another member's entry *)
Theorem c12_likelihood_list_none_entry :
  forall ls Ns ns r k dl dx dr,
    list_call member_call ls Ns (Some ns) = Some r -> (k < length ls)%nat ->
    nth k ns None = None ->
    nth k r dr = member_call (nth k ls dl) (nth k Ns dx) None.
Proof. exact list_call_none_entry. Qed.
Print Assumptions c12_likelihood_list_none_entry.

(* ======================================================================================== *)
(* C12's expectation is C13's (Proofs/C13_tie.v): the degree-<=2 functional [E2 m v] used in
   [c12_expected_log_prob] is the normal moment functional [normal_expect m v] of C13 (the
   standard-normal moments pushed through f = m + sqrt v z), for every polynomial of degree <= 2 *)
From GPV Require Import Models.C13_quadrature Proofs.C13_quadrature Proofs.C13_moments Proofs.C13_tie.

Theorem c12_E2_is_c13_normal_expect :
  forall (m v c0 c1 c2 : R), (0 <= v)%R ->
    E2 m v (c0, c1, c2) = normal_expect m v (c0 :: c1 :: c2 :: nil).
Proof. exact E2_is_normal_expect. Qed.
Print Assumptions c12_E2_is_c13_normal_expect.

(* the closed form printed by the model for expected_log_prob is what ANY quadrature rule that is
   exact on z^0, z^1, z^2 against N(0,1) (premise of C13's exactness theorem, D >= 3) returns on
   the Gaussian log density: the analytic override and the generic quadrature path agree *)
Theorem c12_expected_log_prob_is_exact_quadrature :
  forall (D : nat) (ts ws : list R) (y m v r : expr),
    (forall k, (k < D)%nat -> gh_rule ts ws 0 1 (fun x => (x ^ k)%R) = @gmom RF k) ->
    (3 <= D)%nat -> (0 < den r)%R -> (0 <= den v)%R ->
    den (elp_expr y m v r)
    = gh_rule ts ws (den m) (den v) (fun f => ln (normal_pdf (den y) f (den r))).
Proof.
  intros D ts ws y m v r H1 H2 H3 H4. symmetry. exact (gh_reproduces_elp_expr D ts ws y m v r H1 H2 H3 H4).
Qed.
Print Assumptions c12_expected_log_prob_is_exact_quadrature.

(* non-vacuity of the premise: the two-point Gauss-Hermite rule, D = 4 *)
Example ex_c12_quadrature_premise :
  forall k, (k < 4)%nat -> gh_rule ts2 ws2 0 1 (fun x => (x ^ k)%R) = @gmom RF k.
Proof. exact two_point_premise. Qed.
Print Assumptions ex_c12_quadrature_premise.
