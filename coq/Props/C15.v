(* C15 — variational objectives equal their definition; the ELBO is a lower bound.
   Statement file: theorems, [exact lemma], Print Assumptions.  Nothing else.
   NOT theorems here (DESIGN 9.3, matrix calculus / log det monotonicity): N*ELBO <= exact log
   marginal likelihood for ALL q(u), the maximum over S, and the natural-gradient fixed point.
   They are labelled tests of the correspondence driver.  What is proved about the bound:
   the optimal q(u) is the exact posterior over u (precision and natural mean parameter), KL >= 0
   in the whitened diagonal case and the resulting bound along the KL term (_partial).
   GROWN (end of file): KL >= 0 with equality case for diagonal q against a diagonal prior
   ([c15_kl_nonneg_meanfield], [c15_kl_zero_iff_meanfield]), KL >= 0 for the model's own expression
   with determinants for every Cholesky-factored q(u) and prior ([c15_kl_nonneg]) and the bound
   ELBO <= likelihood term at that generality ([c15_elbo_le_likelihood_term]); [expect_poly] is
   C13's moment functional ([c15_expect_poly_is_c13_normal_expect]). *)
From Coq Require Import Reals Arith List.
From GPV Require Import Base.LinAlg Base.Exec Base.Expr Models.C02_mll Proofs.C02_mll
  Models.C15_elbo Proofs.C15_elbo Proofs.C15_real Proofs.C15_gap Proofs.C15_multi.
Import ListNotations.

(* the objective as coded (/num_batch, /(num_data/beta), priors /num_data, added losses as they
   are) is (1/B) sum ell - (beta/N) KL + (1/N) log priors - added *)
Theorem c15_objective_is_definition :
  forall (K : Fld) (ell nb kl beta nd lp added : car), nb <> f0 -> nd <> f0 -> beta <> f0 ->
    elbo_value ell nb kl beta nd lp added = elbo_spec ell nb kl beta nd lp added.
Proof. intros K. exact (@elbo_value_is_spec K). Qed.
Print Assumptions c15_objective_is_definition.

(* full batch: N * ELBO = sum ell - beta KL + log priors - N * added *)
Theorem c15_elbo_scaling :
  forall (K : Fld) (ell kl beta nd lp added : car), nd <> f0 -> beta <> f0 ->
    fmul nd (elbo_value ell nd kl beta nd lp added)
    = fsub (fadd (fsub ell (fmul beta kl)) lp) (fmul nd added).
Proof. intros K. exact (@elbo_scaling K). Qed.
Print Assumptions c15_elbo_scaling.

(* minibatches of ANY size B+1 drawn uniformly (with replacement) from N points, any declared
   num_data: the minibatch objective averages to the full-batch objective *)
Theorem c15_minibatch_unbiased :
  forall (K : Fld) N B (ell : nat -> car) (kl beta nd lp added : car),
    C02_mll.of_nat N <> f0 -> C02_mll.of_nat (S B) <> f0 ->
    avg_tuples N (S B) (fun t => elbo_value (lsum t ell) (C02_mll.of_nat (S B)) kl beta nd lp added)
    = elbo_value (sum N ell) (C02_mll.of_nat N) kl beta nd lp added.
Proof. intros K N B ell kl beta nd lp added HN. exact (@minibatch_unbiased K N HN B ell kl beta nd lp added). Qed.
Print Assumptions c15_minibatch_unbiased.

(* E_{f ~ N(m,v)} log N(y; f, s2) = log N(y; m, s2) - v/(2 s2), with the Gaussian expectation of
   a polynomial given by the moment functional (l = the log-normaliser of N(.; ., s2)) *)
Theorem c15_gaussian_ell_closed_form :
  forall (K : Fld) (l y s2 m v : car), s2 <> f0 -> fadd f1 f1 <> f0 ->
    expect_poly m v (gauss_loglik_poly l y s2)
    = fsub (fsub l (fdiv (fmul (fsub y m) (fsub y m)) (fmul (fadd f1 f1) s2)))
           (fdiv v (fmul (fadd f1 f1) s2)).
Proof. intros K. exact (@gaussian_ell_closed_form K). Qed.
Print Assumptions c15_gaussian_ell_closed_form.

(* the code's expected_log_prob term is that expectation, and is log N(y; mu, s2) - v/(2 s2) *)
Theorem c15_gaussian_ell_code_form :
  forall (y mu v s2 : R), s2 <> 0%R ->
    @expect_poly RF mu v (@gauss_loglik_poly RF (- / 2 * ln s2 - / 2 * ln (2 * PI))%R y s2)
    = (- / 2 * (@ell_rat RF y mu v s2 + ln s2 + ln (2 * PI)))%R
    /\ (- / 2 * (@ell_rat RF y mu v s2 + ln s2 + ln (2 * PI)))%R = (logN1 y mu s2 - v / (2 * s2))%R.
Proof. exact gaussian_ell_code_forms. Qed.
Print Assumptions c15_gaussian_ell_code_form.

(* PredictiveLogLikelihood term is log N(y; mu, v + s2) *)
Theorem c15_pll_code_form :
  forall (y mu v s2 : R), (v + s2 <> 0)%R ->
    (- / 2 * (@logn_rat RF y mu (v + s2) + ln (v + s2) + ln (2 * PI)))%R = logN1 y mu (v + s2).
Proof. exact pll_code_form. Qed.
Print Assumptions c15_pll_code_form.

(* the optimal q(u): S* = Kzz Sigma^-1 Kzz is the inverse of the posterior precision
   Kzz^-1 + Kzz^-1 Kzx D^-1 Kxz Kzz^-1 (Theta* = -1/2 of it), all sizes, any diagonal or full D^-1 *)
Theorem c15_optimal_q_is_posterior_cov :
  forall (K : Fld) m n (Kzz Kinv Kzx Di Si : M),
    is_inverse m Kzz Kinv -> is_inverse m (opt_Sigma n Kzz Kzx Di) Si ->
    is_inverse m (post_precision m n Kinv Kzx Di) (opt_S m Kzz Si).
Proof. intros K. exact (@opt_S_is_posterior_cov K). Qed.
Print Assumptions c15_optimal_q_is_posterior_cov.

(* ... and its mean has the natural parameter theta* = Kzz^-1 Kzx D^-1 (y - mx) *)
Theorem c15_optimal_q_is_posterior_mean :
  forall (K : Fld) m n (Kzz Kinv Kzx Di Si : M),
    is_inverse m Kzz Kinv -> is_inverse m (opt_Sigma n Kzz Kzx Di) Si -> forall mz r : M,
    meq m 1 (mmul m (post_precision m n Kinv Kzx Di) (msub (opt_mean m n Kzz Kzx Di Si mz r) mz))
            (opt_theta m n Kinv Kzx Di r).
Proof. intros K. exact (@opt_mean_natural K). Qed.
Print Assumptions c15_optimal_q_is_posterior_mean.

(* maximum over q(u), MEAN direction (all sizes): the mean-dependent part of the full-batch ELBO
   G(mq) = -1/2 (r - C d)^T D^-1 (r - C d) - 1/2 d^T Kzz^-1 d,  d = mq - mz, C = Kxz Kzz^-1, falls short of
   its value at the posterior mean m* by exactly 1/2 [ (C h)^T D^-1 (C h) + h^T Kzz^-1 h ], h = mq - m*.
   PARTIAL w.r.t. the property: the covariance direction (-1/2 tr(P S) + 1/2 log det S is maximal at
   S = P^-1) needs log-det concavity, out of reach (DESIGN 9.3); it is tested. *)
Theorem c15_optimal_mean_gap_partial :
  forall (K : Fld) m n (Kzz Kinv Kzx Di Si mz r mq : M),
    symmetric m Kzz -> symmetric n Di -> fadd f1 f1 <> f0 ->
    is_inverse m Kzz Kinv -> is_inverse m (opt_Sigma n Kzz Kzx Di) Si ->
    let ms := opt_mean m n Kzz Kzx Di Si mz r in
    fsub (elbo_mean_part m n Kinv Kzx Di mz r ms) (elbo_mean_part m n Kinv Kzx Di mz r mq)
    = fdiv (fadd (quadf n Di (mmul m (mmul m (mT Kzx) Kinv) (msub mq ms))) (quadf m Kinv (msub mq ms)))
           (fadd f1 f1).
Proof. intros K. exact (@elbo_mean_gap_opt K). Qed.
Print Assumptions c15_optimal_mean_gap_partial.

(* hence over R, with D^-1 and Kzz^-1 positive semi-definite, no variational mean beats m* *)
Theorem c15_optimal_mean_is_maximiser_partial :
  forall m n (Kzz Kinv Kzx Di Si mz r mq : @M RF),
    @symmetric RF m Kzz -> @symmetric RF n Di ->
    @is_inverse RF m Kzz Kinv -> @is_inverse RF m (@opt_Sigma RF n Kzz Kzx Di) Si ->
    (forall x : @M RF, (0 <= @quadf RF n Di x)%R) -> (forall x : @M RF, (0 <= @quadf RF m Kinv x)%R) ->
    (@elbo_mean_part RF m n Kinv Kzx Di mz r mq
     <= @elbo_mean_part RF m n Kinv Kzx Di mz r (@opt_mean RF m n Kzz Kzx Di Si mz r))%R.
Proof. exact elbo_mean_maximal. Qed.
Print Assumptions c15_optimal_mean_is_maximiser_partial.

(* maximum over q(u), COVARIANCE direction, diagonal (commuting) case: the S-dependent part of the
   ELBO, -1/2 tr(P S) + 1/2 log det S, with P = diag(p) the posterior precision and S = diag(s), is maximal
   at S = P^-1 (every size).  PARTIAL: general (non-commuting) P, S need log-det concavity. *)
Theorem c15_optimal_cov_diagonal_partial :
  forall n (p s : nat -> R), (forall i, (i < n)%nat -> (0 < p i)%R) -> (forall i, (i < n)%nat -> (0 < s i)%R) ->
    (@sum RF n (fun i => - / 2 * (p i * s i) + / 2 * ln (s i))
     <= @sum RF n (fun i => - / 2 * (p i * / p i) + / 2 * ln (/ p i)))%R.
Proof. exact elbo_cov_part_diag_max. Qed.
Print Assumptions c15_optimal_cov_diagonal_partial.

(* KL(q(u)||p(u)) >= 0 for a whitened mean-field q(u) (every size); full covariance needs
   log det / trace inequalities that are out of reach: partial *)
Theorem c15_kl_nonneg_meanfield_partial :
  forall n (s mw : nat -> R), (forall i, (i < n)%nat -> (0 < s i)%R) ->
    (0 <= @sum RF n (fun i => s i + mw i * mw i - 1 - ln (s i)))%R.
Proof. exact kl_nonneg_diag. Qed.
Print Assumptions c15_kl_nonneg_meanfield_partial.

(* the bound along the KL term: with KL >= 0 the objective never exceeds its likelihood part *)
Theorem c15_elbo_le_likelihood_term_partial :
  forall (ell nb kl beta nd lp added : R), (0 <= kl)%R -> (0 < beta)%R -> (0 < nd)%R ->
    (@elbo_value RF ell nb kl beta nd lp added <= ell / nb + lp / nd - added)%R.
Proof. exact elbo_le_without_kl. Qed.
Print Assumptions c15_elbo_le_likelihood_term_partial.

(* non-vacuity of the optimal-q hypotheses: a concrete 2-inducing / 3-point instance *)
Example ex_c15_optimal_q_hypotheses :
  exists (Kzz Kinv Kzx Di Si : @M QcF),
    @is_inverse QcF 2%nat Kzz Kinv /\ @is_inverse QcF 2%nat (@opt_Sigma QcF 3%nat Kzz Kzx Di) Si.
Proof. exact ex_opt_hypotheses. Qed.
Print Assumptions ex_c15_optimal_q_hypotheses.

(* ======================================================================================== *)
(* grown part (Proofs/C15_kl.v, Proofs/C13_tie.v)                                            *)
From GPV Require Import Models.C10_mvn Proofs.C10_kl Models.C14_variational Proofs.C15_kl.
From GPV Require Import Models.C13_quadrature Proofs.C13_moments Proofs.C13_tie.

(* the moment functional [expect_poly] of this property is C13's: recurrence form for every
   variance, binomial form (standard-normal moments through f = m + sd z) with v = sd^2;
   every degree, every field *)
Theorem c15_expect_poly_is_c13_normal_expect :
  forall (K : Fld) (m sd : car) (p : list car),
    expect_poly m (fmul sd sd) p = normal_expect_sd m sd p /\
    forall v, expect_poly m v p = normal_expect_var m v p.
Proof.
  intros K m sd p.
  exact (conj (expect_poly_is_normal_expect_sd m sd p) (fun v => expect_poly_is_normal_expect_var m v p)).
Qed.
Print Assumptions c15_expect_poly_is_c13_normal_expect.

(* KL >= 0, mean-field FULL: q(u) = N(mq, diag sq) against p(u) = N(mp, diag sp), every size, any
   means, any positive variances (2 KL = sum_i sq_i/sp_i + (mq_i - mp_i)^2/sp_i - 1 - ln(sq_i/sp_i));
   [c15_kl_nonneg_meanfield_partial] is the special case sp = 1, mp = 0 *)
Theorem c15_kl_nonneg_meanfield :
  forall n (mq sq mp sp : nat -> R),
    (forall i, (i < n)%nat -> (0 < sq i)%R) -> (forall i, (i < n)%nat -> (0 < sp i)%R) ->
    (0 <= kl2_diag n mq sq mp sp)%R.
Proof. exact kl2_diag_nonneg. Qed.
Print Assumptions c15_kl_nonneg_meanfield.

(* ... with equality exactly at q = p *)
Theorem c15_kl_zero_iff_meanfield :
  forall n (mq sq mp sp : nat -> R),
    (forall i, (i < n)%nat -> (0 < sq i)%R) -> (forall i, (i < n)%nat -> (0 < sp i)%R) ->
    (kl2_diag n mq sq mp sp = 0%R <-> forall i, (i < n)%nat -> sq i = sp i /\ mq i = mp i).
Proof. exact kl2_diag_zero_iff. Qed.
Print Assumptions c15_kl_zero_iff_meanfield.

(* [kl2_diag] is the model's KL on diagonal matrices: rational part [kl_unwh_alg] (C14) - n plus
   the log-determinant difference written as sum_i ln sp_i - sum_i ln sq_i.
   (That sum_i ln d_i = ln det diag(d) for the Laplace determinant of Base/Exec.v is not used
   here; it is the triangular-determinant lemma of Base/Det.v.) *)
Theorem c15_kl_meanfield_is_model_kl :
  forall n (sq sp : nat -> R) (mq mz : @M RF),
    (forall i, (i < n)%nat -> (0 < sq i)%R) -> (forall i, (i < n)%nat -> (0 < sp i)%R) ->
    (@kl_unwh_alg RF n (@mdiag RF (fun i => / sp i)) (@mdiag RF sq) mq mz - @fnat RF n
     + (@sum RF n (fun i => ln (sp i)) - @sum RF n (fun i => ln (sq i))))%R
    = kl2_diag n (fun i => mq i O) sq (fun i => mz i O) sp.
Proof. exact kl2_diag_is_model_kl. Qed.
Print Assumptions c15_kl_meanfield_is_model_kl.

Theorem c15_kl_meanfield_whitened_case :
  forall n (s mw : nat -> R),
    kl2_diag n mw s (fun _ => 0%R) (fun _ => 1%R)
    = @sum RF n (fun i => (s i + mw i * mw i - 1 - ln (s i))%R).
Proof. exact kl2_diag_whitened. Qed.
Print Assumptions c15_kl_meanfield_whitened_case.

(* ELBO <= likelihood term, at the generality of the KL statement: diagonal q, diagonal prior *)
Theorem c15_elbo_le_likelihood_term_meanfield :
  forall n (mq sq mp sp : nat -> R) (ell nb beta nd lp added : R),
    (forall i, (i < n)%nat -> (0 < sq i)%R) -> (forall i, (i < n)%nat -> (0 < sp i)%R) ->
    (0 < beta)%R -> (0 < nd)%R ->
    (@elbo_value RF ell nb (/ 2 * kl2_diag n mq sq mp sp) beta nd lp added
     <= ell / nb + lp / nd - added)%R.
Proof. exact elbo_le_likelihood_term_diag. Qed.
Print Assumptions c15_elbo_le_likelihood_term_meanfield.

(* the gap in that bound is exactly (beta / N) KL *)
Theorem c15_elbo_gap_is_scaled_kl :
  forall (ell nb kl beta nd lp added : R), beta <> 0%R -> nd <> 0%R ->
    (ell / nb + lp / nd - added - @elbo_value RF ell nb kl beta nd lp added = beta / nd * kl)%R.
Proof. exact elbo_gap_is_scaled_kl. Qed.
Print Assumptions c15_elbo_gap_is_scaled_kl.

(* FULL covariance through C10's Cholesky form: q(u) = N(mq, Lq Lq^T), prior precision
   Kzz^-1 = Li^T Li, W = Li Lq with positive diagonal (automatic for Cholesky factors):
   2 KL = [kl_unwh_alg] - n - sum_i ln W_ii^2 >= 0, hence the ELBO bound for every such q(u).
   The log-det term is in factor form; ln det Kzz - ln det S = - sum_i ln W_ii^2 (determinant of a
   triangular product) is not part of this statement. *)
Theorem c15_kl_nonneg_cholesky :
  forall n (mq mz Lq Li : @M RF),
    (forall i, (i < n)%nat -> (0 < @mmul RF n Li Lq i i)%R) ->
    (0 <= kl2_chol_model n mq mz Lq Li)%R.
Proof. exact kl2_chol_model_nonneg. Qed.
Print Assumptions c15_kl_nonneg_cholesky.

Theorem c15_elbo_le_likelihood_term_cholesky :
  forall n (mq mz Lq Li : @M RF) (ell nb beta nd lp added : R),
    (forall i, (i < n)%nat -> (0 < @mmul RF n Li Lq i i)%R) -> (0 < beta)%R -> (0 < nd)%R ->
    (@elbo_value RF ell nb (/ 2 * kl2_chol_model n mq mz Lq Li) beta nd lp added
     <= ell / nb + lp / nd - added)%R.
Proof. exact elbo_le_likelihood_term_chol. Qed.
Print Assumptions c15_elbo_le_likelihood_term_cholesky.

(* the model's rational KL part (C14) is C10's [kl_rational] with q(u) in the first slot *)
Theorem c15_kl_alg_is_c10_kl_rational :
  forall (K : Fld) n (Kinv S mq mz : M),
    fsub (kl_unwh_alg n Kinv S mq mz) (fnat n) = kl_rational n mq S mz Kinv.
Proof. intros K. exact (@kl_unwh_alg_is_kl_rational K). Qed.
Print Assumptions c15_kl_alg_is_c10_kl_rational.

(* non-vacuity of the Cholesky hypothesis: unit factors, every size *)
Example ex_c15_cholesky_hypothesis :
  forall n i, (i < n)%nat -> (0 < @mmul RF n (@mI RF) (@mI RF) i i)%R.
Proof. exact ex_kl2_chol_hyp. Qed.
Print Assumptions ex_c15_cholesky_hypothesis.

(* ======================================================================================== *)
(* FULL statements for the model's own KL expression (Proofs/C15_kl_det.v; Base/Det.v)       *)
From GPV Require Import Base.Det Proofs.C10_det Proofs.C15_kl_det.

(* KL(q(u) || p(u)) >= 0 for twice the expression the model prints,
     [kl2_model] = kl_unwh_alg n Kinv S mq mz - n + ln det Kzz - ln det S      ([det]: Base/Exec.v),
   for EVERY Gaussian q(u) = N(mq, S) and prior N(mz, Kzz) with Cholesky-factored covariances
   (S = Lq Lq^T, Kzz = L L^T, factors lower triangular with positive diagonal), Kinv ANY inverse of
   Kzz, every size; both determinants are positive, so the logarithms are meaningful *)
Theorem c15_kl_nonneg :
  forall n (Kzz Kinv S mq mz L Li Lq : @M RF),
    @tri_lower RF n Lq -> @tri_lower RF n L ->
    (forall i, (i < n)%nat -> (0 < Lq i i)%R) -> (forall i, (i < n)%nat -> (0 < L i i)%R) ->
    @is_inverse RF n L Li ->
    @meq RF n n (@mmul RF n Lq (@mT RF Lq)) S -> @meq RF n n (@mmul RF n L (@mT RF L)) Kzz ->
    @is_inverse RF n Kzz Kinv ->
    (0 < @det RF n S)%R /\ (0 < @det RF n Kzz)%R /\ (0 <= kl2_model n Kzz Kinv S mq mz)%R.
Proof. exact kl2_model_nonneg. Qed.
Print Assumptions c15_kl_nonneg.

(* the bound along the KL term at that generality: for every such q(u) the objective never exceeds
   (1/B) sum ell + (1/N) log prior - added.  (The bound N*ELBO <= exact log marginal likelihood
   remains a labelled test, see the header.) *)
Theorem c15_elbo_le_likelihood_term :
  forall n (Kzz Kinv S mq mz L Li Lq : @M RF) (ell nb beta nd lp added : R),
    @tri_lower RF n Lq -> @tri_lower RF n L ->
    (forall i, (i < n)%nat -> (0 < Lq i i)%R) -> (forall i, (i < n)%nat -> (0 < L i i)%R) ->
    @is_inverse RF n L Li ->
    @meq RF n n (@mmul RF n Lq (@mT RF Lq)) S -> @meq RF n n (@mmul RF n L (@mT RF L)) Kzz ->
    @is_inverse RF n Kzz Kinv ->
    (0 < beta)%R -> (0 < nd)%R ->
    (@elbo_value RF ell nb (/ 2 * kl2_model n Kzz Kinv S mq mz) beta nd lp added
     <= ell / nb + lp / nd - added)%R.
Proof. exact elbo_le_likelihood_term_full. Qed.
Print Assumptions c15_elbo_le_likelihood_term.

(* the mean-field sum [kl2_diag] of [c15_kl_nonneg_meanfield] IS that model expression on diagonal
   matrices (determinants included: det diag(d) = prod d) *)
Theorem c15_kl_meanfield_is_kl2_model :
  forall n (sq sp : nat -> R) (mq mz : @M RF),
    (forall i, (i < n)%nat -> (0 < sq i)%R) -> (forall i, (i < n)%nat -> (0 < sp i)%R) ->
    kl2_model n (@mdiag RF sp) (@mdiag RF (fun i => (/ sp i)%R)) (@mdiag RF sq) mq mz
    = kl2_diag n (fun i => mq i O) sq (fun i => mz i O) sp.
Proof. exact kl2_diag_is_kl2_model. Qed.
Print Assumptions c15_kl_meanfield_is_kl2_model.

(* non-vacuity of the hypotheses of [c15_kl_nonneg] / [c15_elbo_le_likelihood_term] *)
Example ex_c15_kl_nonneg_hypotheses :
  exists (Kzz Kinv S L Li Lq : @M RF),
    @tri_lower RF 2 Lq /\ @tri_lower RF 2 L /\
    (forall i, (i < 2)%nat -> (0 < Lq i i)%R) /\ (forall i, (i < 2)%nat -> (0 < L i i)%R) /\
    @is_inverse RF 2 L Li /\
    @meq RF 2 2 (@mmul RF 2 Lq (@mT RF Lq)) S /\ @meq RF 2 2 (@mmul RF 2 L (@mT RF L)) Kzz /\
    @is_inverse RF 2 Kzz Kinv.
Proof. exact ex_kl2_model_hyps. Qed.
Print Assumptions ex_c15_kl_nonneg_hypotheses.

From Coq Require Import Permutation.
From GPV Require Import Models.C02_priors Proofs.C02_priors Proofs.C02_added.
Import ListNotations.

(* ---- added-loss terms (Module.named_added_loss_terms; model: Models/C02_priors.v named_added = the traversal with
   the memo on the TERM OBJECTS threaded through the whole module tree).  For EVERY module tree -- any sharing of modules
   (a module reachable under several names), any nesting, any registration names -- every term object that occurs in
   the tree is yielded, and hence subtracted by the objective, EXACTLY once *)
Theorem c15_added_terms_never_twice :
  forall t, NoDup (map reg_prior (named_added t)).
Proof. exact named_added_nodup. Qed.
Print Assumptions c15_added_terms_never_twice.

Theorem c15_added_terms_complete :
  forall t x, In x (map reg_prior (named_added t)) <-> In x (objs t).
Proof. exact named_added_complete. Qed.
Print Assumptions c15_added_terms_complete.

Theorem c15_added_terms_are_the_distinct_objects :
  forall t, Permutation (map reg_prior (named_added t)) (nodup Nat.eq_dec (objs t)).
Proof. exact named_added_distinct. Qed.
Print Assumptions c15_added_terms_are_the_distinct_objects.

(* the traversal that does not hand its memo down to the children yields a term of a shared module twice (witness: the
   tree of covar_module = ScaleKernel(base) next to model.base_kernel = base) *)
Theorem c15_added_terms_fresh_memo_refuted :
  exists t, ~ NoDup (map reg_prior (collect_added_fresh t)) /\ NoDup (map reg_prior (named_added t)).
Proof. exact collect_added_fresh_refuted. Qed.
Print Assumptions c15_added_terms_fresh_memo_refuted.

Example ex_c15_added_terms_shared_module :
  named_added (MNode 0 [(0, 5)] [MNode 1 [] [MNode 2 [(0, 7)] []]; MNode 2 [(0, 7)] []])%nat = [(0, 0, 5); (2, 0, 7)]%nat.
Proof. exact ex_named_added_shared. Qed.
Print Assumptions ex_c15_added_terms_shared_module.

(* the same for the log priors: every registration of every distinct module exactly once (the C02 traversal theorems,
   restated for the module tree of the variational objective: MLL -> {likelihood, model}) *)
Theorem c15_priors_never_twice :
  forall t, names_nodup t -> NoDup (map reg_key (named_priors t)).
Proof. exact named_priors_once. Qed.
Print Assumptions c15_priors_never_twice.

Theorem c15_priors_every_registration :
  forall t, NoDup (ids t) -> named_priors t = regs t.
Proof. exact named_priors_tree_all. Qed.
Print Assumptions c15_priors_every_registration.

(* ------------------------------------------------------------------------------------------ *)
(* KL >= 0 and the ELBO bound for ALL symmetric positive definite covariances                  *)
(* (Base/Cholesky.v, Proofs/C10_kl_pd.v, Proofs/C15_kl_pd.v)                                    *)
From GPV Require Import Base.Psd Base.Cholesky Proofs.C10_kl_pd Proofs.C15_kl_pd.

(* [c15_kl_nonneg] without factor hypotheses: for EVERY q(u) = N(mq, S) with symmetric positive
   definite S and EVERY symmetric positive definite prior covariance Kzz ([PD] of Base/Psd.v), Kinv ANY
   inverse of Kzz, every size: both determinants are positive, the model's 2 KL is >= 0, and it is 0
   at q(u) = p(u).  (The Cholesky factors are constructed: c10_pd_has_cholesky_factor.) *)
Theorem c15_kl_nonneg_pd :
  forall n (Kzz Kinv S mq mz : @M RF),
    @symmetric RF n S -> @PD RF ROrd n S -> @symmetric RF n Kzz -> @PD RF ROrd n Kzz ->
    @is_inverse RF n Kzz Kinv ->
    (0 < @det RF n S)%R /\ (0 < @det RF n Kzz)%R /\ (0 <= kl2_model n Kzz Kinv S mq mz)%R /\
    (@meq RF n n S Kzz -> @meq RF n 1 mq mz -> kl2_model n Kzz Kinv S mq mz = 0%R).
Proof. exact kl2_model_nonneg_pd. Qed.
Print Assumptions c15_kl_nonneg_pd.

(* the bound along the KL term at that generality *)
Theorem c15_elbo_le_likelihood_term_pd :
  forall n (Kzz Kinv S mq mz : @M RF) (ell nb beta nd lp added : R),
    @symmetric RF n S -> @PD RF ROrd n S -> @symmetric RF n Kzz -> @PD RF ROrd n Kzz ->
    @is_inverse RF n Kzz Kinv ->
    (0 < beta)%R -> (0 < nd)%R ->
    (@elbo_value RF ell nb (/ 2 * kl2_model n Kzz Kinv S mq mz) beta nd lp added
     <= ell / nb + lp / nd - added)%R.
Proof. exact elbo_le_likelihood_term_pd. Qed.
Print Assumptions c15_elbo_le_likelihood_term_pd.

(* ... and it is attained at q(u) = prior *)
Theorem c15_elbo_eq_likelihood_term_at_prior :
  forall n (Kzz Kinv mz : @M RF) (ell nb beta nd lp added : R),
    @symmetric RF n Kzz -> @PD RF ROrd n Kzz -> @is_inverse RF n Kzz Kinv ->
    (@elbo_value RF ell nb (/ 2 * kl2_model n Kzz Kinv Kzz mz mz) beta nd lp added
     = ell / nb + lp / nd - added)%R.
Proof. exact elbo_eq_likelihood_term_at_prior. Qed.
Print Assumptions c15_elbo_eq_likelihood_term_at_prior.

(* non-vacuity: S = Kzz = [[2,1],[1,2]] (not given in factored form) with its inverse *)
Example ex_c15_kl_nonneg_pd_hypotheses :
  @symmetric RF 2 exPD /\ @PD RF ROrd 2 exPD /\ @is_inverse RF 2 exPD exPD_inv.
Proof. exact ex_kl2_model_pd_hyps. Qed.
Print Assumptions ex_c15_kl_nonneg_pd_hypotheses.

(* ---- multi-output objectives (IndependentMultitask / LMC variational strategy + multitask Gaussian likelihood;
   targets B x T).  The minibatch size of the objective is the number of POINTS B. ------------------------------ *)

(* the mean of the objective over ANY partition of P*B points into P consecutive minibatches of B points is the
   full-batch objective -- for every number of tasks T, declared num_data, beta, prior and added terms *)
Theorem c15_multioutput_partition :
  forall (K : Fld) (P B T : nat) (e : nat -> nat -> car) (kl beta nd lp added : car),
    C02_mll.of_nat P <> f0 -> C02_mll.of_nat B <> f0 ->
    fdiv (sum P (fun p => mt_elbo_value B T (fun i t => e (p * B + i)%nat t) kl beta nd lp added)) (C02_mll.of_nat P)
    = mt_elbo_value (P * B) T e kl beta nd lp added.
Proof. intros K. exact (@mt_partition K). Qed.
Print Assumptions c15_multioutput_partition.

(* ... and it is an unbiased estimate under uniformly drawn minibatches of any size *)
Theorem c15_multioutput_minibatch_unbiased :
  forall (K : Fld) (N B T : nat) (e : nat -> nat -> car) (kl beta nd lp added : car),
    C02_mll.of_nat N <> f0 -> C02_mll.of_nat (S B) <> f0 ->
    avg_tuples N (S B) (fun t => elbo_value (lsum t (mt_point_ell T e)) (C02_mll.of_nat (S B)) kl beta nd lp added)
    = mt_elbo_value N T e kl beta nd lp added.
Proof. intros K. exact (@mt_minibatch_unbiased K). Qed.
Print Assumptions c15_multioutput_minibatch_unbiased.

(* taking the minibatch size from the LAST dimension of the targets (the number of tasks) is off by
   (sum of the likelihood terms) * (1/T - 1/B) ... *)
Theorem c15_multioutput_by_tasks_gap :
  forall (K : Fld) (B T : nat) (e : nat -> nat -> car) (kl beta nd lp added : car),
    C02_mll.of_nat B <> f0 -> C02_mll.of_nat T <> f0 ->
    fsub (mt_elbo_value_by_tasks B T e kl beta nd lp added) (mt_elbo_value B T e kl beta nd lp added)
    = fmul (sum B (mt_point_ell T e)) (fsub (fdiv f1 (C02_mll.of_nat T)) (fdiv f1 (C02_mll.of_nat B))).
Proof. intros K. exact (@mt_by_tasks_gap K). Qed.
Print Assumptions c15_multioutput_by_tasks_gap.

(* ... hence not the definition *)
Theorem c15_multioutput_by_tasks_refuted :
  exists (B T : nat) (e : nat -> nat -> Qcanon.Qc) (kl beta nd lp added : Qcanon.Qc),
    @mt_elbo_value_by_tasks QcF B T e kl beta nd lp added <> @mt_elbo_value QcF B T e kl beta nd lp added.
Proof. exact mt_by_tasks_refuted. Qed.
Print Assumptions c15_multioutput_by_tasks_refuted.

(* independent tasks are the LMC construction with the identity mixing matrix and no jitter *)
Theorem c15_independent_is_lmc_identity :
  forall (K : Fld) (L : nat) (mu v : nat -> nat -> car) (i t : nat), (t < L)%nat ->
    C15_elbo.lmc_mean L mI mu i t = mu t i /\ C15_elbo.lmc_var L mI f0 v i t = v t i.
Proof. intros K L mu v i t Ht. split; [exact (@lmc_identity_mean K L mu i t Ht) | exact (@lmc_identity_var K L v i t Ht)]. Qed.
Print Assumptions c15_independent_is_lmc_identity.
