(* C02 — exact marginal log likelihood and LOO pseudo-likelihood equal their dense definitions.
   Statement file: theorems, [exact lemma], Print Assumptions.  Nothing else.
   NOT a theorem here (DESIGN 9.3): equality of gradients (matrix calculus with log det); the
   gradient half is a labelled test of the correspondence driver. *)
From Coq Require Import Arith List Permutation Reals QArith Qcanon.
From GPV Require Import Base.LinAlg Base.Exec Base.Expr Models.C01_posterior Models.C02_mll Proofs.C02_mll.
From GPV Require Import Models.C02_priors Proofs.C02_priors Proofs.C02_added Proofs.C02_container.
From GPV Require Import Base.Det Proofs.C02_det Proofs.C02_route.
Import ListNotations.

(* LOO: for EVERY size n = k+1 and EVERY index i, the code's sigma_i^2 = 1/[A^-1]_ii and
   mu_i = y_i - [A^-1 (y-m)]_i / [A^-1]_ii are the variance and mean of the Gaussian conditional
   of y_i given all the other observations under y ~ N(m, A) (any inverse of A, any inverse of
   A with row/column i deleted; no symmetry needed) *)
Theorem c02_loo_is_leave_one_out :
  forall (K : Fld) k i (A Ainv Binv y m : M), (i <= k)%nat ->
    is_inverse (S k) A Ainv -> is_inverse k (del i A) Binv ->
    loo_sigma2 Ainv i = cond_var k i A Binv
    /\ loo_mu (S k) Ainv y m i = cond_mean k i A Binv y m.
Proof. intros K. exact (@loo_is_leave_one_out K). Qed.
Print Assumptions c02_loo_is_leave_one_out.

(* ... and that conditional is the C01 posterior (closed-form conditional, characterised in
   Props/C01.v) of the joint re-ordered as [others; i] with train = others *)
Theorem c02_loo_conditional_is_c01_posterior :
  forall (K : Fld) k i (A Binv y m : M), (i <= k)%nat ->
    let J := loo_joint k i A in
    let muJ : M := fun a _ => m (loo_perm k i a) O in
    cond_var k i A Binv = cov_closed k J Binv O O
    /\ cond_mean k i A Binv y m = post_mean k J muJ Binv (vdel i y) O O.
Proof. intros K. exact (@loo_cond_is_c01_posterior K). Qed.
Print Assumptions c02_loo_conditional_is_c01_posterior.

(* the diagonal entry of the inverse is never zero and is the inverse Schur complement *)
Theorem c02_loo_schur_complement :
  forall (K : Fld) k i (A Ainv Binv : M), (i <= k)%nat ->
    is_inverse (S k) A Ainv -> is_inverse k (del i A) Binv ->
    fmul (Ainv i i) (cond_var k i A Binv) = f1.
Proof. intros K. exact (@loo_schur K). Qed.
Print Assumptions c02_loo_schur_complement.

(* chain rule of the Gaussian density, quadratic half: conditioning on all-but-i splits
   r^T A^-1 r into the quadratic form of the other observations plus the standardised LOO residual
   (every n, every i).  PARTIAL: quadratic half only; the log-det half, det A = det A[-i,-i] * sigma_i^2,
   and log p(y) = log p(y_-i) + log p(y_i | y_-i) are c02_quad_chain_rule / c02_density_chain_rule below
   (Base/Det.v supplies multiplicativity of the Laplace determinant; name kept: DESIGN refers to it). *)
Theorem c02_quad_chain_rule_partial :
  forall (K : Fld) k i (A Ainv Binv y m : M), (i <= k)%nat -> symmetric (S k) A ->
    is_inverse (S k) A Ainv -> is_inverse k (del i A) Binv ->
    quadf (S k) Ainv (msub y m)
    = fadd (quadf k Binv (vdel i (msub y m)))
           (fdiv (fmul (fsub (y i O) (cond_mean k i A Binv y m)) (fsub (y i O) (cond_mean k i A Binv y m)))
                 (cond_var k i A Binv)).
Proof. intros K. exact (@quad_chain_rule_loo K). Qed.
Print Assumptions c02_quad_chain_rule_partial.

(* FULL version (Base/Det.v: the Laplace determinant of the model is multiplicative, and the cofactor of the
   (i,i) entry is [A^-1]_ii det A): both halves of the chain rule, every n, every i --
   the quadratic form splits as above AND  det A = det A[-i,-i] * sigma_i^2  (no symmetry needed for the
   determinant half) *)
Theorem c02_quad_chain_rule :
  forall (K : Fld) k i (A Ainv Binv y m : M), (i <= k)%nat -> symmetric (S k) A ->
    is_inverse (S k) A Ainv -> is_inverse k (del i A) Binv ->
    quadf (S k) Ainv (msub y m)
    = fadd (quadf k Binv (vdel i (msub y m)))
           (fdiv (fmul (fsub (y i O) (cond_mean k i A Binv y m)) (fsub (y i O) (cond_mean k i A Binv y m)))
                 (cond_var k i A Binv))
    /\ det (S k) A = fmul (det k (del i A)) (cond_var k i A Binv).
Proof. intros K. exact (@chain_rule_loo_full K). Qed.
Print Assumptions c02_quad_chain_rule.

Theorem c02_det_chain_rule :
  forall (K : Fld) k i (A Ainv Binv : M), (i <= k)%nat ->
    is_inverse (S k) A Ainv -> is_inverse k (del i A) Binv ->
    det (S k) A = fmul (det k (del i A)) (cond_var k i A Binv).
Proof. intros K. exact (@det_chain_rule_loo K). Qed.
Print Assumptions c02_det_chain_rule.

(* ... hence over R, with logN(n, q, d) = -1/2 (q + ln d + n ln 2 pi) (what the printed log-density term
   denotes, c02_printed_logN_denotes):  log p(y) = log p(y_-i) + log N(y_i; mu_i, sigma_i^2) *)
Theorem c02_density_chain_rule :
  forall k i (A Ainv Binv y m : @M RF), (i <= k)%nat ->
    symmetric (S k) A -> is_inverse (S k) A Ainv -> is_inverse k (del i A) Binv ->
    (0 < det k (del i A))%R -> (0 < cond_var k i A Binv)%R ->
    (0 < det (S k) A)%R /\
    (logNR (S k) (quadf (S k) Ainv (msub y m)) (det (S k) A)
     = logNR k (quadf k Binv (vdel i (msub y m))) (det k (del i A))
       + logN1 (y i O) (cond_mean k i A Binv y m) (cond_var k i A Binv))%R.
Proof. exact density_chain_rule_loo. Qed.
Print Assumptions c02_density_chain_rule.

Example ex_c02_density_chain_rule_hypotheses :
  symmetric 2 exR_A /\ is_inverse 2 exR_A exR_Ainv /\ is_inverse 1 (del 1 exR_A) (fun _ _ => (/ 2)%R)
  /\ (0 < det 1 (del 1 exR_A))%R /\ (0 < cond_var 1 1 exR_A (fun _ _ => (/ 2)%R))%R.
Proof. exact ex_density_chain_hyps. Qed.
Print Assumptions ex_c02_density_chain_rule_hypotheses.

(* the LOO objective as coded = mean over i of log N(y_i; mu_i, sigma_i^2) + (priors+added)/n *)
Theorem c02_loo_objective_is_mean_predictive_logdensity :
  forall n (y mu s2 : nat -> R) other, (n <> 0)%nat ->
    loo_code_value n y mu s2 other
    = (@sum RF n (fun i => logN1 (y i) (mu i) (s2 i)) / INR n + other / INR n)%R.
Proof. exact loo_objective_is_mean. Qed.
Print Assumptions c02_loo_objective_is_mean_predictive_logdensity.

(* MLL: num_data * mll = log N + sum of added-loss terms + sum of log priors *)
Theorem c02_mll_decomposition :
  forall (K : Fld) (logp : car) priors added nd, nd <> f0 ->
    fmul nd (mll_value logp priors added nd) = fadd (fadd logp (csum added)) (csum priors).
Proof. intros K. exact (@mll_decomposition K). Qed.
Print Assumptions c02_mll_decomposition.

(* every added-loss term and every prior enters exactly once, scaled by 1/num_data, in any
   registration order *)
Theorem c02_mll_terms_once :
  forall (K : Fld) (logp : car) priors added x nd, nd <> f0 ->
    fsub (mll_value logp priors (x :: added) nd) (mll_value logp priors added nd) = fdiv x nd
    /\ fsub (mll_value logp (x :: priors) added nd) (mll_value logp priors added nd) = fdiv x nd.
Proof. intros K. exact (@mll_terms_once K). Qed.
Print Assumptions c02_mll_terms_once.

Theorem c02_mll_registration_order_irrelevant :
  forall (K : Fld) (logp : car) priors priors' added added' nd,
    Permutation priors priors' -> Permutation added added' ->
    mll_value logp priors added nd = mll_value logp priors' added' nd.
Proof. intros K. exact (@mll_perm K). Qed.
Print Assumptions c02_mll_registration_order_irrelevant.

(* WHICH priors enter (Module.named_priors, model: memo on the visited modules): for EVERY module tree
   without sharing the traversal yields every registration, in order -- whatever the registration
   names (two sub-modules may both register a `lengthscale_prior`) and whatever the prior objects
   (one prior object may serve parameters of several modules) *)
Theorem c02_named_priors_every_registration :
  forall t, NoDup (ids t) -> named_priors t = regs t.
Proof. exact named_priors_tree_all. Qed.
Print Assumptions c02_named_priors_every_registration.

(* ... and with shared modules (a module reachable under several names, any tree) no (module, name)
   registration is ever yielded twice *)
Theorem c02_named_priors_never_twice :
  forall t, names_nodup t -> NoDup (map reg_key (named_priors t)).
Proof. exact named_priors_once. Qed.
Print Assumptions c02_named_priors_never_twice.

(* the de-duplication rule of /repo after fix 1d4b0ae (memo on the prior OBJECTS already yielded) does
   not have the first property: a prior object registered on two modules of a sharing-free tree with
   distinct names per module is yielded once (known finding C02-prior-object-shared-by-two-modules) *)
Theorem c02_named_priors_dedup_by_prior_object_refuted :
  exists t, NoDup (ids t) /\ names_nodup t
            /\ (length (fst (collect_by_prior t [])) < length (regs t))%nat.
Proof. exact by_prior_object_drops. Qed.
Print Assumptions c02_named_priors_dedup_by_prior_object_refuted.

(* non-vacuity and the refutation's witness under the definition: a sharing-free tree, two modules that
   register the SAME prior object under the SAME name -- both registrations are yielded *)
Example ex_c02_named_priors_same_name_same_object :
  named_priors (MNode 0 [] [MNode 1 [(0, 7)] []; MNode 2 [(0, 7)] []])%nat = [(1, 0, 7); (2, 0, 7)]%nat.
Proof. exact by_module_keeps_example. Qed.
Print Assumptions ex_c02_named_priors_same_name_same_object.

(* HOW a prior term is distributed over the batch elements (_add_other_terms).  A NON-batch module
   (batch shape []), or one whose batch shape consists of ones: ALL entries of its parameter (e.g. all
   ARD lengthscales) count for EVERY batch element, whatever the batch shape of the objective *)
Theorem c02_prior_slot_nonbatch_module :
  forall (K : Fld) P (vals : list car) idx, Forall (fun s => s = 1%nat) P ->
    slot_sum P (length vals) vals idx = csum vals.
Proof. intros K. exact (@slot_ones K). Qed.
Print Assumptions c02_prior_slot_nonbatch_module.

(* a module carrying the full batch shape F (any number of dims, any sizes): the slots of the batch
   elements partition the entries -- summed over all elements every entry counts exactly once *)
Theorem c02_prior_slot_partition :
  forall (K : Fld) F tail (vals : list car), length vals = (prodn F * tail)%nat ->
    csum (map (slot_sum F tail vals) (all_idx F)) = csum vals.
Proof. intros K. exact (@slot_partition K). Qed.
Print Assumptions c02_prior_slot_partition.

(* multitask: number of observations = points x tasks *)
Theorem c02_num_data_multitask :
  forall (K : Fld) n t, of_nat (n * t) = fmul (of_nat n) (of_nat t).
Proof. intros K. exact (@of_nat_mul K). Qed.
Print Assumptions c02_num_data_multitask.

(* SumMarginalLogLikelihood is the mean of the member objectives; with equal data sizes it is
   the total dense objective divided by (n * number of members) *)
Theorem c02_sum_mll_is_mean :
  forall (K : Fld) (mlls : list car), of_nat (length mlls) <> f0 ->
    fmul (of_nat (length mlls)) (sum_mll_value mlls) = csum mlls.
Proof. intros K. exact (@sum_mll_is_mean K). Qed.
Print Assumptions c02_sum_mll_is_mean.

Theorem c02_sum_mll_equal_ndata :
  forall (K : Fld) (nd : car) ts, nd <> f0 -> of_nat (length ts) <> f0 ->
    sum_mll_value (map (fun t => fdiv t nd) ts) = fdiv (csum ts) (fmul nd (of_nat (length ts))).
Proof. intros K. exact (@sum_mll_equal_ndata K). Qed.
Print Assumptions c02_sum_mll_equal_ndata.

(* SumMarginalLogLikelihood(outputs, targets, *params): member k is evaluated on output k, target k and ITS OWN
   params k; the call is defined only if all lists have the members' length (length_safe_zip).  Any number of
   members, any member objective [call]. *)
Theorem c02_sum_mll_routes_own_params :
  forall (K : Fld) (Mem Out Tgt Par : Type) (call : Mem -> Out -> Tgt -> option Par -> car)
         ms os ts ps vs k dm do dt dp,
    sum_route call ms os ts (Some ps) = Some vs -> (k < length ms)%nat ->
    length os = length ms /\ length ts = length ms /\ length ps = length ms /\ length vs = length ms /\
    nth k vs (call dm do dt (Some dp)) = call (nth k ms dm) (nth k os do) (nth k ts dt) (Some (nth k ps dp)).
Proof. intros K Mem Out Tgt Par call ms. exact (@sum_route_params_nth K Mem Out Tgt Par call ms). Qed.
Print Assumptions c02_sum_mll_routes_own_params.

Theorem c02_sum_mll_routes_plain :
  forall (K : Fld) (Mem Out Tgt Par : Type) (call : Mem -> Out -> Tgt -> option Par -> car)
         ms os ts vs k dm do dt,
    sum_route call ms os ts None = Some vs -> (k < length ms)%nat ->
    length os = length ms /\ length ts = length ms /\ length vs = length ms /\
    nth k vs (call dm do dt None) = call (nth k ms dm) (nth k os do) (nth k ts dt) None.
Proof. intros K Mem Out Tgt Par call ms. exact (@sum_route_plain_nth K Mem Out Tgt Par call ms). Qed.
Print Assumptions c02_sum_mll_routes_plain.

Theorem c02_sum_mll_params_length_checked :
  forall (K : Fld) (Mem Out Tgt Par : Type) (call : Mem -> Out -> Tgt -> option Par -> car) ms os ts ps,
    length ps <> length ms -> sum_route call ms os ts (Some ps) = None.
Proof. intros K Mem Out Tgt Par call. exact (@sum_route_params_length K Mem Out Tgt Par call). Qed.
Print Assumptions c02_sum_mll_params_length_checked.

(* giving every member the FIRST member's params instead is a different function (2 members, params 1 and 2) *)
Theorem c02_sum_mll_first_params_refuted :
  exists (ps : list Qc),
    sum_route (K:=QcF) (fun (_ _ _ : unit) (p : option Qc) => match p with Some v => v | None => 0%Qc end)
              (cons tt (cons tt nil)) (cons tt (cons tt nil)) (cons tt (cons tt nil)) (Some ps)
    <> Some (map (fun _ => nth 0 ps 0%Qc) ps).
Proof. exact sum_route_first_params_refuted. Qed.
Print Assumptions c02_sum_mll_first_params_refuted.

(* the Cholesky path: inv_quad from ANY root L of A equals r^T A^-1 r for ANY inverse *)
Theorem c02_quad_via_any_root :
  forall (K : Fld) n (L Linv A Ainv r : M),
    meq n n (mmul n L (mT L)) A -> is_inverse n L Linv -> is_inverse n A Ainv ->
    quadf n Ainv r = dotf n (mmul n Linv r) (mmul n Linv r).
Proof. intros K. exact (@quad_via_root K). Qed.
Print Assumptions c02_quad_via_any_root.

(* what the executable model prints denotes the dense definition over R *)
Theorem c02_printed_logN_denotes :
  forall n q d, den (logN_expr n q d)
    = (- / 2 * (Q2R' q + ln (Q2R' d) + INR n * ln (2 * PI)))%R.
Proof. exact den_logN_expr. Qed.
Print Assumptions c02_printed_logN_denotes.

Theorem c02_printed_mll_denotes :
  forall logp priors added nd, den (mll_expr logp priors added nd)
    = @mll_value RF (den logp) (map Q2R' priors) (map Q2R' added) (Q2R' nd).
Proof. exact den_mll_expr. Qed.
Print Assumptions c02_printed_mll_denotes.

(* the executable model only ever uses a certified inverse *)
Theorem c02_run_inverse_certified :
  forall n A Mi, inv_checked n A = Some Mi -> is_inverse n A Mi.
Proof. exact inv_checked_sound. Qed.
Print Assumptions c02_run_inverse_certified.

(* non-vacuity: a concrete 3x3 instance of the LOO hypotheses (middle index) *)
Example ex_c02_loo_hypotheses :
  let A : @M QcF := @of_list QcF [[qc 2 1; qc 1 1; qc 0 1]; [qc 1 1; qc 2 1; qc 1 1]; [qc 0 1; qc 1 1; qc 2 1]] in
  exists Ainv Binv, @is_inverse QcF 3%nat A Ainv /\ @is_inverse QcF 2%nat (@del QcF 1%nat A) Binv.
Proof. exact ex_loo_hypotheses. Qed.
Print Assumptions ex_c02_loo_hypotheses.

(* ---- added-loss terms (Module.named_added_loss_terms; model: Models/C02_priors.v named_added = the traversal with
   the memo on the TERM OBJECTS threaded through the whole module tree).  For EVERY module tree -- any sharing of modules
   (a module reachable under several names), any nesting, any registration names -- every term object that occurs in
   the tree is yielded, and hence added by the objective, EXACTLY once *)
Theorem c02_added_terms_never_twice :
  forall t, NoDup (map reg_prior (named_added t)).
Proof. exact named_added_nodup. Qed.
Print Assumptions c02_added_terms_never_twice.

Theorem c02_added_terms_complete :
  forall t x, In x (map reg_prior (named_added t)) <-> In x (objs t).
Proof. exact named_added_complete. Qed.
Print Assumptions c02_added_terms_complete.

Theorem c02_added_terms_are_the_distinct_objects :
  forall t, Permutation (map reg_prior (named_added t)) (nodup Nat.eq_dec (objs t)).
Proof. exact named_added_distinct. Qed.
Print Assumptions c02_added_terms_are_the_distinct_objects.

(* the traversal that does not hand its memo down to the children yields a term of a shared module twice (witness: the
   tree of covar_module = ScaleKernel(base) next to model.base_kernel = base) *)
Theorem c02_added_terms_fresh_memo_refuted :
  exists t, ~ NoDup (map reg_prior (collect_added_fresh t)) /\ NoDup (map reg_prior (named_added t)).
Proof. exact collect_added_fresh_refuted. Qed.
Print Assumptions c02_added_terms_fresh_memo_refuted.

Example ex_c02_added_terms_shared_module :
  named_added (MNode 0 [(0, 5)] [MNode 1 [] [MNode 2 [(0, 7)] []]; MNode 2 [(0, 7)] []])%nat = [(0, 0, 5); (2, 0, 7)]%nat.
Proof. exact ex_named_added_shared. Qed.
Print Assumptions ex_c02_added_terms_shared_module.

(* ---- plain torch containers (nn.ModuleList / nn.ModuleDict / nn.Sequential: tree nodes that are not gpytorch Modules and
   carry no registrations) are TRANSPARENT for named_added_loss_terms: for every module, every position of the container among
   its children and every content of the container (hence, by repeated use, every depth of nesting), the terms yielded -- and
   their order -- are those of the tree in which the container's children are attached to its parent directly.  So the SGPR
   term of an InducingPointKernel that is a summand of an AdditiveKernel (kept in a ModuleList) enters the objective *)
Theorem c02_added_terms_container_transparent :
  forall i ps pre c ch post,
    named_added (MNode i ps (pre ++ MNode c [] ch :: post)) = named_added (MNode i ps (pre ++ ch ++ post)).
Proof. exact named_added_container_transparent. Qed.
Print Assumptions c02_added_terms_container_transparent.

(* ... also with an arbitrary incoming memo, and when the root itself is a container *)
Theorem c02_added_terms_container_is_its_children :
  forall c ch memo, collect_by_prior (MNode c [] ch) memo = collect_list collect_by_prior ch memo.
Proof. exact container_is_its_children. Qed.
Print Assumptions c02_added_terms_container_is_its_children.

(* the traversal that returns at a node that is not a gpytorch Module loses the terms registered below a container, although
   the root is a gpytorch Module (witness: model -> sum kernel -> ModuleList -> [component; component with a term]) *)
Theorem c02_added_terms_stop_at_container_refuted :
  exists (plain : nat -> bool) (t : mtree),
    (forall id ps ch, In (MNode id ps ch) [t] -> plain id = false) /\
    fst (collect_stop_at_plain plain t []) <> named_added t.
Proof. exact stop_at_plain_refuted. Qed.
Print Assumptions c02_added_terms_stop_at_container_refuted.
