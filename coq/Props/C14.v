(* C14 — variational predictive q(f) and KL(q(u)||p(u)) equal their closed forms.
   Statement file: theorems, [exact lemma], Print Assumptions.  Nothing else.
   Sizes: m inducing points, n data points, all arbitrary.  Inverses / roots are relational. *)
From Coq Require Import Reals Arith QArith Qcanon List.
Import ListNotations.
From GPV Require Import Base.LinAlg Base.Exec Base.Expr Base.Det Models.C14_variational Proofs.C14_variational Proofs.C14_more
  Models.C14_branches Proofs.C14_branches Proofs.C14_det.

(* UnwhitenedVariationalStrategy.forward (eval branch: one solve against [m - mz, R], R any
   root of S) computes  Kxx - Kxz Kzz^-1 (Kzz - S) Kzz^-1 Kzx *)
Theorem c14_unwhitened_code_is_closed_form :
  forall (K : Fld) m n r Kzz Kzx Kxx Kinv R S,
    symmetric m Kzz -> is_inverse m Kzz Kinv -> meq m m (mmul r R (mT R)) S ->
    meq n n (unwh_cov_code m r Kzx Kxx Kinv R) (unwh_cov m Kzz Kzx Kxx Kinv S).
Proof. intros K. exact (@unwh_code_eq_closed K). Qed.
Print Assumptions c14_unwhitened_code_is_closed_form.

(* whitened_eq_unwhitened: for ANY root L of Kzz (Cholesky: VariationalStrategy; symmetric:
   CIQ) the whitened predictive with parameters (m_w, S_w) is the unwhitened closed form of
   q(u) = N(m_z + L m_w, L S_w L^T) *)
Theorem c14_whitened_eq_unwhitened_mean :
  forall (K : Fld) m n Kzz Kzx Kinv L Linv,
    meq m m (mmul m L (mT L)) Kzz -> is_inverse m L Linv -> is_inverse m Kzz Kinv ->
    forall mx mz mw,
    meq n 1 (wh_mean m (interp m Linv Kzx) mx mw)
            (unwh_mean m Kzx Kinv mx mz (unwhiten_mean m L mz mw)).
Proof. intros K. exact (@whitened_mean_eq K). Qed.
Print Assumptions c14_whitened_eq_unwhitened_mean.

Theorem c14_whitened_eq_unwhitened_cov :
  forall (K : Fld) m n Kzz Kzx Kxx Kinv L Linv,
    meq m m (mmul m L (mT L)) Kzz -> is_inverse m L Linv -> is_inverse m Kzz Kinv ->
    forall Sw,
    meq n n (wh_cov m (interp m Linv Kzx) Kxx Sw)
            (unwh_cov m Kzz Kzx Kxx Kinv (unwhiten_cov m L Sw)).
Proof. intros K. exact (@whitened_cov_eq K). Qed.
Print Assumptions c14_whitened_eq_unwhitened_cov.

(* prior_fixed_point: q(u) = p(u) gives q(f) = prior, in both parametrisations ... *)
Theorem c14_prior_fixed_point_whitened :
  forall (K : Fld) m n A mx Kxx,
    meq n 1 (wh_mean m A mx mzero) mx /\ meq n n (wh_cov m A Kxx mI) Kxx.
Proof. intros K. exact (@prior_fixed_point_whitened K). Qed.
Print Assumptions c14_prior_fixed_point_whitened.

Theorem c14_prior_fixed_point_unwhitened :
  forall (K : Fld) m n Kzz Kzx Kxx Kinv mx mz,
    meq n 1 (unwh_mean m Kzx Kinv mx mz mz) mx /\
    meq n n (unwh_cov m Kzz Kzx Kxx Kinv Kzz) Kxx.
Proof. intros K. exact (@prior_fixed_point_unwhitened K). Qed.
Print Assumptions c14_prior_fixed_point_unwhitened.

(* ... and the rational part of 2 KL (trace + quadratic form) equals the dimension, so that
   2 KL = n - n - log det I  resp.  n - n + log det Kzz - log det Kzz *)
Theorem c14_kl_at_prior :
  forall (K : Fld) n,
    kl_wh_alg n mI mzero = fnat n /\
    (forall Kzz Kinv mz, is_inverse n Kzz Kinv -> kl_unwh_alg n Kinv Kzz mz mz = fnat n).
Proof. intros K. exact (@kl_alg_at_prior K). Qed.
Print Assumptions c14_kl_at_prior.

(* KL of the whitened strategy vs KL(q(u)||p(u)) of the described q(u): the trace and the
   quadratic term agree for every root L.  FULL statement (not proved):
     tr Sw + |mw|^2 - n - log det Sw
       = tr(Kzz^-1 S) + (m-mz)^T Kzz^-1 (m-mz) - n + log det Kzz - log det S
   with S = L Sw L^T.  Missing: det (L Sw L^T) = det Kzz * det Sw (multiplicativity of the
   Laplace-expansion determinant of Base/Exec.v) -- now proved in Base/Det.v: the full statements are
   c14_kl_whitened_eq_unwhitened and c14_kl_whitened_eq_unwhitened_log below (name kept: DESIGN refers to it). *)
Theorem c14_kl_whitened_eq_unwhitened_partial :
  forall (K : Fld) m Kzz Kinv L Linv,
    meq m m (mmul m L (mT L)) Kzz -> is_inverse m L Linv -> is_inverse m Kzz Kinv ->
    forall mz mw Sw,
    kl_wh_alg m Sw mw =
    kl_unwh_alg m Kinv (unwhiten_cov m L Sw) (unwhiten_mean m L mz mw) mz.
Proof. intros K. exact (@kl_alg_whitened_eq K). Qed.
Print Assumptions c14_kl_whitened_eq_unwhitened_partial.

(* FULL version (Base/Det.v proves det (A B) = det A * det B for the model's Laplace determinant):
   for ANY root L of Kzz and ANY S_w, besides the trace + quadratic part, the determinant of the described
   covariance S = L S_w L^T is det Kzz * det S_w (generic field, every m) ... *)
Theorem c14_kl_whitened_eq_unwhitened :
  forall (K : Fld) m Kzz Kinv L Linv,
    meq m m (mmul m L (mT L)) Kzz -> is_inverse m L Linv -> is_inverse m Kzz Kinv ->
    forall mz mw Sw,
    kl_wh_alg m Sw mw =
    kl_unwh_alg m Kinv (unwhiten_cov m L Sw) (unwhiten_mean m L mz mw) mz
    /\ det m (unwhiten_cov m L Sw) = fmul (det m Kzz) (det m Sw).
Proof. intros K. exact (@kl_whitened_eq_full K). Qed.
Print Assumptions c14_kl_whitened_eq_unwhitened.

(* ... hence over R the two complete expressions for 2 KL coincide:
     tr Sw + |mw|^2 - m - ln det Sw
       = tr(Kzz^-1 S) + (mq-mz)^T Kzz^-1 (mq-mz) - m + ln det Kzz - ln det S,   S = L Sw L^T, mq = mz + L mw *)
Theorem c14_kl_whitened_eq_unwhitened_log :
  forall m (Kzz Kinv L Linv : @M RF),
    meq m m (mmul m L (mT L)) Kzz -> is_inverse m L Linv -> is_inverse m Kzz Kinv ->
    forall (mz mw Sw : @M RF), (0 < det m Sw)%R -> (0 < det m Kzz)%R ->
    (0 < det m (unwhiten_cov m L Sw))%R /\
    (kl_wh_alg m Sw mw - fnat m - ln (det m Sw)
     = kl_unwh_alg m Kinv (unwhiten_cov m L Sw) (unwhiten_mean m L mz mw) mz - fnat m
       + ln (det m Kzz) - ln (det m (unwhiten_cov m L Sw)))%R.
Proof. exact kl_whitened_eq_log. Qed.
Print Assumptions c14_kl_whitened_eq_unwhitened_log.

Example ex_c14_kl_log_hypotheses :
  let L : @M RF := fun _ _ => 2%R in let Kzz : @M RF := fun _ _ => 4%R in
  meq 1 1 (mmul 1 L (mT L)) Kzz /\ is_inverse 1 L (fun _ _ => (/ 2)%R) /\ is_inverse 1 Kzz (fun _ _ => (/ 4)%R)
  /\ (0 < det 1 (fun _ _ => 3%R : @car RF))%R /\ (0 < det 1 Kzz)%R.
Proof. exact ex_kl_log_hyps. Qed.
Print Assumptions ex_c14_kl_log_hypotheses.

(* the log-det part of that change of variables, for the factors the code works with: for
   lower-triangular L (Cholesky factor of Kzz) and C (factor of S_w, CholeskyVariationalDistribution),
   L C is the lower-triangular factor of S = L S_w L^T and its squared diagonal product
   (= det S as computed from a Cholesky factor) is det Kzz * det S_w computed the same way.
   PARTIAL: does not say that the squared diagonal product of a triangular factor T is the (Laplace)
   determinant of T T^T; the full statement is c14_kl_logdet_whitening_triangular below. *)
Theorem c14_kl_logdet_whitening_triangular_partial :
  forall (K : Fld) n L C Sw,
    lower n L -> lower n C -> meq n n (mmul n C (mT C)) Sw ->
    lower n (mmul n L C) /\
    meq n n (mmul n (mmul n L C) (mT (mmul n L C))) (unwhiten_cov n L Sw) /\
    fmul (diag_prod n (mmul n L C)) (diag_prod n (mmul n L C))
    = fmul (fmul (diag_prod n L) (diag_prod n L)) (fmul (diag_prod n C) (diag_prod n C)).
Proof. intros K. exact (@triangular_factor_logdet K). Qed.
Print Assumptions c14_kl_logdet_whitening_triangular_partial.

(* FULL version: the squared diagonal products of the triangular factors ARE the Laplace determinants
   (of S = L S_w L^T, of Kzz = L L^T and of S_w = C C^T), and det S = det Kzz * det S_w; every n *)
Theorem c14_kl_logdet_whitening_triangular :
  forall (K : Fld) n L C Sw,
    lower n L -> lower n C -> meq n n (mmul n C (mT C)) Sw ->
    lower n (mmul n L C) /\
    meq n n (mmul n (mmul n L C) (mT (mmul n L C))) (unwhiten_cov n L Sw) /\
    fmul (diag_prod n (mmul n L C)) (diag_prod n (mmul n L C)) = det n (unwhiten_cov n L Sw) /\
    fmul (diag_prod n L) (diag_prod n L) = det n (mmul n L (mT L)) /\
    fmul (diag_prod n C) (diag_prod n C) = det n Sw /\
    det n (unwhiten_cov n L Sw) = fmul (det n (mmul n L (mT L))) (det n Sw).
Proof. intros K. exact (@triangular_factor_logdet_full K). Qed.
Print Assumptions c14_kl_logdet_whitening_triangular.

(* NGD-CIQ (known finding C14-ciq-ngd-diagonal-covariance): the marginal variances the code
   returns, diag(Kxx) - sum_k A_ki^2 + sum_k (S A)_ki A_ki, ARE the diagonal of the closed form
   Kxx + A^T (S - I) A; only the off-diagonal entries are dropped *)
Theorem c14_ciq_ngd_variance_is_diagonal_of_closed_form :
  forall (K : Fld) m A Kxx S i, ciq_ngd_var m A Kxx S i = wh_cov m A Kxx S i i.
Proof. intros K. exact (@ciq_ngd_var_is_diag K). Qed.
Print Assumptions c14_ciq_ngd_variance_is_diagonal_of_closed_form.

(* grid-interpolation strategy, exact limit used by the executable model (run_c14 2/5): an
   interpolation matrix with one-hot rows (inputs at grid nodes) selects entries of q(u):
   W m = m[ix] and W S W^T = S[ix, ix] *)
Theorem c14_grid_onehot_interpolation_selects :
  forall (K : Fld) m ix mq S i j, (ix i < m)%nat -> (ix j < m)%nat ->
    mmul m (onehot_rows ix) mq i O = gather ix (fun x => x) mq i O /\
    mmul m (onehot_rows ix) (mmul m S (mT (onehot_rows ix))) i j = gather ix ix S i j.
Proof. intros K. exact (@onehot_selects K). Qed.
Print Assumptions c14_grid_onehot_interpolation_selects.

(* delta distributions (S = 0): whitened covariance Kxx - A^T A, unwhitened covariance = the
   prior conditional Kxx - Kxz Kzz^-1 Kzx *)
Theorem c14_delta_covariances :
  forall (K : Fld) m n,
    (forall A Kxx, meq n n (wh_cov m A Kxx delta_cov) (msub Kxx (mmul m (mT A) A))) /\
    (forall Kzz Kzx Kxx Kinv, is_inverse m Kzz Kinv ->
       meq n n (unwh_cov m Kzz Kzx Kxx Kinv delta_cov)
               (msub Kxx (mmul m (mT Kzx) (mmul m Kinv Kzx)))).
Proof. intros K. exact (@delta_covariances K). Qed.
Print Assumptions c14_delta_covariances.

(* natural parameters: the code's S = C^-T C^-1 (C C^T = -2 Theta) inverts the precision ... *)
Theorem c14_natural_cov_is_inverse_precision :
  forall (K : Fld) n P C Ci,
    meq n n (mmul n C (mT C)) P -> is_inverse n C Ci -> is_inverse n P (nat_cov_code n Ci).
Proof. intros K. exact (@natural_cov_code_correct K). Qed.
Print Assumptions c14_natural_cov_is_inverse_precision.

(* ... tril-natural: S = T^-1 T^-T inverts T^T T = -2 Theta ... *)
Theorem c14_trilnatural_cov_is_inverse_precision :
  forall (K : Fld) n T Ti,
    is_inverse n (tril T) Ti -> is_inverse n (trilnat_precision n T) (trilnat_cov_code n Ti).
Proof. intros K. exact (@trilnat_cov_code_correct K). Qed.
Print Assumptions c14_trilnatural_cov_is_inverse_precision.

(* ... and natural <-> moment parameters are mutually inverse (characteristic <> 2) *)
Theorem c14_natural_to_moment_roundtrip :
  forall (K : Fld) n Theta theta S, two <> f0 ->
    is_inverse n (nat_precision Theta) S ->
    meq n 1 (moment_to_nat_vec n (nat_precision Theta) (nat_mean n S theta)) theta /\
    meq n n (moment_to_nat_mat (nat_precision Theta)) Theta.
Proof. intros K. exact (@natural_to_moment_roundtrip K). Qed.
Print Assumptions c14_natural_to_moment_roundtrip.

Theorem c14_moment_to_natural_roundtrip :
  forall (K : Fld) n P S mq S', two <> f0 ->
    is_inverse n S P -> is_inverse n (nat_precision (moment_to_nat_mat P)) S' ->
    meq n n S' S /\ meq n 1 (nat_mean n S' (moment_to_nat_vec n P mq)) mq.
Proof. intros K. exact (@moment_to_natural_roundtrip K). Qed.
Print Assumptions c14_moment_to_natural_roundtrip.

(* lmc_mixing: the entry at (point i, task t) x (point j, task t') of the code's
   sum_q Kron(C_q, a_q a_q^T) (interleaved layout) is Cov(sum_q a_qt g_q(x_i),
   sum_q a_qt' g_q(x_j)) for independent latents; same for the mean *)
Theorem c14_lmc_mixing :
  forall (K : Fld) Q T N a C mu i t j t',
    (i < N)%nat -> (j < N)%nat -> (t < T)%nat -> (t' < T)%nat ->
    lmc_cov Q T a C (i * T + t)%nat (j * T + t')%nat = lmc_cov_def Q N a C i t j t' /\
    lmc_mean Q T a mu (i * T + t)%nat O = lmc_mean_def Q N a mu i t.
Proof. intros K. exact (@lmc_mixing K). Qed.
Print Assumptions c14_lmc_mixing.

(* independent multitask output = LMC with the identity as mixing matrix *)
Theorem c14_independent_multitask_is_identity_mixing :
  forall (K : Fld) T C mu r c, (0 < T)%nat ->
    indep_cov T C r c = lmc_cov T T (fun q t => if Nat.eqb q t then f1 else f0) C r c /\
    indep_mean T mu r O = lmc_mean T T (fun q t => if Nat.eqb q t then f1 else f0) mu r O.
Proof. intros K. exact (@indep_is_lmc_identity K). Qed.
Print Assumptions c14_independent_multitask_is_identity_mixing.

(* settings.trace_mode(True) branch of VariationalStrategy.forward (dense product taken from the left:
   K_XX + (A^T (S - I)) A) is the closed form the default lazy branch represents, for all sizes *)
Theorem c14_trace_mode_branch_is_closed_form :
  forall (K : Fld) m n A Kxx Sw,
    meq n n (wh_cov_trace_mode m A Kxx Sw) (wh_cov m A Kxx Sw).
Proof. intros K. exact (@wh_cov_trace_mode_eq K). Qed.
Print Assumptions c14_trace_mode_branch_is_closed_form.

(* ... and its sign is not a convention: subtracting the correction is right exactly when the correction
   A^T (S - I) A vanishes (in particular at q(u) = p(u), which is why that family cannot see the sign) *)
Theorem c14_trace_mode_branch_sign :
  forall (K : Fld) m n A Kxx Sw, @fadd K f1 f1 <> f0 ->
    (meq n n (wh_cov_trace_mode_minus m A Kxx Sw) (wh_cov m A Kxx Sw) <->
     meq n n (mmul m (mT A) (mmul m (msub Sw mI) A)) mzero).
Proof. intros K. exact (@wh_cov_trace_mode_minus_iff K). Qed.
Print Assumptions c14_trace_mode_branch_sign.

Theorem c14_trace_mode_branch_minus_refuted :
  exists (A Kxx Sw : nat -> nat -> Qc),
    @wh_cov_trace_mode_minus QcF 1 A Kxx Sw O O <> @wh_cov QcF 1 A Kxx Sw O O.
Proof. exact wh_cov_trace_mode_minus_differs. Qed.
Print Assumptions c14_trace_mode_branch_minus_refuted.

(* the executable model only ever uses certified inverses *)
Theorem c14_run_inverse_certified :
  forall n A Mi, inv_checked n A = Some Mi -> is_inverse n A Mi.
Proof. exact inv_checked_sound. Qed.
Print Assumptions c14_run_inverse_certified.

(* non-vacuity: a 2x2 root / inverse instance over Qc meeting the hypotheses of
   c14_whitened_eq_unwhitened_* (L = [[2,0],[1,1]], Kzz = L L^T = [[4,2],[2,2]]) and
   char Qc <> 2 *)
Example ex_c14_hypotheses_satisfiable :
  let L : @M QcF := @of_list QcF [[qc 2 1; qc 0 1]; [qc 1 1; qc 1 1]]%list in
  let Kzz : @M QcF := @of_list QcF [[qc 4 1; qc 2 1]; [qc 2 1; qc 2 1]]%list in
  meq 2 2 (mmul 2 L (mT L)) Kzz /\
  (exists Linv, is_inverse 2 L Linv) /\ (exists Kinv, is_inverse 2 Kzz Kinv) /\
  @two QcF <> @f0 QcF.
Proof. exact ex_hypotheses_satisfiable. Qed.
Print Assumptions ex_c14_hypotheses_satisfiable.

Example ex_c14_lower_triangular_factors : @lower QcF 2 exL /\ @lower QcF 2 exC.
Proof. exact ex_lower. Qed.
Print Assumptions ex_c14_lower_triangular_factors.

(* ------------------------------------------------------------------------------------------ *)
(* the KL statements without determinant / inverse-of-the-factor side conditions               *)
(* (Base/Cholesky.v, Proofs/C10_kl_pd.v, Proofs/C14_kl_pd.v)                                    *)
From GPV Require Import Base.Psd Base.Cholesky Proofs.C14_kl_pd.

(* [c14_kl_whitened_eq_unwhitened_log] for EVERY symmetric positive definite S_w ([PD] of Base/Psd.v)
   and every invertible root L of Kzz: the hypotheses 0 < det S_w, 0 < det Kzz are discharged (all three
   determinants are positive), the two complete expressions for 2 KL coincide and the value is >= 0 *)
Theorem c14_kl_whitened_eq_unwhitened_log_pd :
  forall m (Kzz Kinv L Linv : @M RF),
    meq m m (mmul m L (mT L)) Kzz -> is_inverse m L Linv -> is_inverse m Kzz Kinv ->
    forall (mz mw Sw : @M RF), symmetric m Sw -> @PD RF ROrd m Sw ->
    (0 < det m Sw)%R /\ (0 < det m Kzz)%R /\ (0 < det m (unwhiten_cov m L Sw))%R /\
    (kl_wh_alg m Sw mw - fnat m - ln (det m Sw)
     = kl_unwh_alg m Kinv (unwhiten_cov m L Sw) (unwhiten_mean m L mz mw) mz - fnat m
       + ln (det m Kzz) - ln (det m (unwhiten_cov m L Sw)))%R /\
    (0 <= kl_wh_alg m Sw mw - fnat m - ln (det m Sw))%R.
Proof. exact kl_whitened_eq_log_pd. Qed.
Print Assumptions c14_kl_whitened_eq_unwhitened_log_pd.

(* the factor the code uses (Cholesky factor of Kzz: lower triangular, non-zero diagonal): its inverse
   is constructed by forward substitution (c10_triangular_factor_invertible), not assumed *)
Theorem c14_kl_whitened_eq_unwhitened_log_cholesky :
  forall m (Kzz Kinv L : @M RF),
    tri_lower m L -> (forall i, (i < m)%nat -> L i i <> 0%R) ->
    meq m m (mmul m L (mT L)) Kzz -> is_inverse m Kzz Kinv ->
    forall (mz mw Sw : @M RF), symmetric m Sw -> @PD RF ROrd m Sw ->
    (0 < det m Sw)%R /\ (0 < det m Kzz)%R /\ (0 < det m (unwhiten_cov m L Sw))%R /\
    (kl_wh_alg m Sw mw - fnat m - ln (det m Sw)
     = kl_unwh_alg m Kinv (unwhiten_cov m L Sw) (unwhiten_mean m L mz mw) mz - fnat m
       + ln (det m Kzz) - ln (det m (unwhiten_cov m L Sw)))%R /\
    (0 <= kl_wh_alg m Sw mw - fnat m - ln (det m Sw))%R.
Proof. exact kl_whitened_eq_log_cholesky. Qed.
Print Assumptions c14_kl_whitened_eq_unwhitened_log_cholesky.

(* ... and every symmetric PD Kzz has such a factor *)
Theorem c14_pd_prior_has_whitening_factor :
  forall m (Kzz : @M RF), symmetric m Kzz -> @PD RF ROrd m Kzz ->
    exists L : @M RF, tri_lower m L /\ (forall i, (i < m)%nat -> L i i <> 0%R) /\
                      meq m m (mmul m L (mT L)) Kzz.
Proof. exact pd_prior_has_whitening_factor. Qed.
Print Assumptions c14_pd_prior_has_whitening_factor.

(* the whitened 2 KL alone: KL( N(m_w, S_w) || N(0, I) ) >= 0 for every symmetric PD S_w *)
Theorem c14_kl_whitened_nonneg_pd :
  forall n (Sw mw : @M RF), symmetric n Sw -> @PD RF ROrd n Sw ->
    (0 < det n Sw)%R /\ (0 <= kl_wh_alg n Sw mw - fnat n - ln (det n Sw))%R.
Proof. exact kl_whitened_nonneg_pd. Qed.
Print Assumptions c14_kl_whitened_nonneg_pd.

Example ex_c14_kl_pd_hypotheses :
  symmetric 2 exPD /\ @PD RF ROrd 2 exPD /\
  tri_lower 2 C10_det.exR_L /\ (forall i, (i < 2)%nat -> C10_det.exR_L i i <> 0%R).
Proof. exact ex_kl_pd_c14_hyps. Qed.
Print Assumptions ex_c14_kl_pd_hypotheses.

(* ---- the EXECUTED predictive q(f) and KL terms are the REAL-NUMBER ones (Base/Morph.v, Proofs/C14_morph.v) ----
   The driver compares the implementation with run_c14 on exact rationals (+ ELog nodes around rational
   determinants).  Q2R' is a field morphism QcF -> RF commuting with every operation of the model, so:
   the certified inverses map to real inverses, the executed (staged) q(f) mean / covariance of the unwhitened and
   whitened strategies are the generic definitions at RF on the mapped inputs, and the printed KL terms DENOTE the
   real-number KL expressions the theorems above (c14_kl_whitened_eq_unwhitened_log_pd, c14_kl_whitened_nonneg_pd, ...)
   are about - so those theorems are statements about the executed quantity.  Every m, n. *)
From GPV Require Import Base.Morph Proofs.C14_morph.

Theorem c14_executed_variational_is_real :
  forall m n (Kzz Kzx Kxx mx mz mq Sq L A Sw mw : @M QcF) Kinv Linv,
    inv_checked m Kzz = Some Kinv -> inv_checked m (mat m m L) = Some Linv ->
    is_inverse m (mapR Kzz) (mapR Kinv) /\ is_inverse m (mapR L) (mapR Linv) /\
    (forall i j, Q2R' (@unwh_mean_staged QcF m Kzx Kinv mx mz mq i j)
       = @unwh_mean_staged RF m (mapR Kzx) (mapR Kinv) (mapR mx) (mapR mz) (mapR mq) i j) /\
    (forall i j, Q2R' (@unwh_cov_staged QcF m n Kzz Kzx Kxx Kinv Sq i j)
       = @unwh_cov_staged RF m n (mapR Kzz) (mapR Kzx) (mapR Kxx) (mapR Kinv) (mapR Sq) i j) /\
    (forall i j, Q2R' (@interp QcF m Linv Kzx i j) = @interp RF m (mapR Linv) (mapR Kzx) i j) /\
    (forall i j, Q2R' (@wh_mean QcF m A mx mw i j) = @wh_mean RF m (mapR A) (mapR mx) (mapR mw) i j) /\
    (forall i j, Q2R' (@wh_cov_staged QcF m n A Kxx Sw i j)
       = @wh_cov_staged RF m n (mapR A) (mapR Kxx) (mapR Sw) i j).
Proof. exact executed_variational_is_real. Qed.
Print Assumptions c14_executed_variational_is_real.

(* the printed KL terms (all four branches of kl_wh_expr / kl_unwh_expr) denote the real KL expressions *)
Theorem c14_executed_kl_is_real_kl :
  forall n (Kp Kpinv Sq mq mz Sw mw : @M QcF),
    den (kl_wh_expr n true Sw mw)
      = (/ 2 * (@kl_wh_alg RF n (mapR Sw) (mapR mw) - @fnat RF n - ln (@det RF n (mapR Sw))))%R /\
    den (kl_wh_expr n false Sw mw)
      = (/ 2 * @dot RF n (mapR mw) (mapR mw) + / 2 * @fnat RF n * ln (2 * PI))%R /\
    den (kl_unwh_expr n true Kp Kpinv Sq mq mz)
      = (/ 2 * (@kl_unwh_alg RF n (mapR Kpinv) (mapR Sq) (mapR mq) (mapR mz) - @fnat RF n
               + (ln (@det RF n (mapR Kp)) - ln (@det RF n (mapR Sq)))))%R /\
    den (kl_unwh_expr n false Kp Kpinv Sq mq mz)
      = (/ 2 * @quad RF n (@msub RF (mapR mq) (mapR mz)) (mapR Kpinv)
        + (/ 2 * ln (@det RF n (mapR Kp)) + / 2 * @fnat RF n * ln (2 * PI)))%R.
Proof. exact den_kl_exprs. Qed.
Print Assumptions c14_executed_kl_is_real_kl.

(* consequence: whenever the real image of the executed S_w is symmetric positive definite, the determinant under
   the printed ELog node is positive and the EXECUTED whitened KL term is >= 0 *)
Theorem c14_executed_kl_whitened_nonneg :
  forall n (Sw mw : @M QcF),
    @symmetric RF n (mapR Sw) -> @PD RF ROrd n (mapR Sw) ->
    (0 < Q2R' (@det QcF n Sw))%R /\ (0 <= den (kl_wh_expr n true Sw mw))%R.
Proof. exact executed_kl_wh_nonneg. Qed.
Print Assumptions c14_executed_kl_whitened_nonneg.

(* the commutation itself, entrywise and for ANY field morphism (generic, no axioms) *)
Theorem c14_variational_model_commutes_with_field_morphisms :
  forall (K1 K2 : Fld) (phi : @car K1 -> @car K2), FldMorph K1 K2 phi ->
  forall m r (Kzz Kzx Kxx Kinv mx mz mq S R A Sw mw L : @M K1) i j,
    phi (@unwh_mean K1 m Kzx Kinv mx mz mq i j)
      = @unwh_mean K2 m (mmap phi Kzx) (mmap phi Kinv) (mmap phi mx) (mmap phi mz) (mmap phi mq) i j /\
    phi (@unwh_cov K1 m Kzz Kzx Kxx Kinv S i j)
      = @unwh_cov K2 m (mmap phi Kzz) (mmap phi Kzx) (mmap phi Kxx) (mmap phi Kinv) (mmap phi S) i j /\
    phi (@unwh_cov_code K1 m r Kzx Kxx Kinv R i j)
      = @unwh_cov_code K2 m r (mmap phi Kzx) (mmap phi Kxx) (mmap phi Kinv) (mmap phi R) i j /\
    phi (@wh_mean K1 m A mx mw i j) = @wh_mean K2 m (mmap phi A) (mmap phi mx) (mmap phi mw) i j /\
    phi (@wh_cov K1 m A Kxx Sw i j) = @wh_cov K2 m (mmap phi A) (mmap phi Kxx) (mmap phi Sw) i j /\
    phi (@unwhiten_mean K1 m L mz mw i j) = @unwhiten_mean K2 m (mmap phi L) (mmap phi mz) (mmap phi mw) i j /\
    phi (@unwhiten_cov K1 m L Sw i j) = @unwhiten_cov K2 m (mmap phi L) (mmap phi Sw) i j /\
    phi (@kl_wh_alg K1 m Sw mw) = @kl_wh_alg K2 m (mmap phi Sw) (mmap phi mw) /\
    phi (@kl_unwh_alg K1 m Kinv S mq mz)
      = @kl_unwh_alg K2 m (mmap phi Kinv) (mmap phi S) (mmap phi mq) (mmap phi mz).
Proof. exact variational_model_commutes_with_field_morphisms. Qed.
Print Assumptions c14_variational_model_commutes_with_field_morphisms.

Example ex_c14_executed_kl_hypotheses : @symmetric RF 2 (mapR exq_Sw) /\ @PD RF ROrd 2 (mapR exq_Sw).
Proof. exact ex_executed_kl_wh_hyps. Qed.
Print Assumptions ex_c14_executed_kl_hypotheses.

(* ---- legacy (pre-whitening) checkpoints.  A state dict without the `updated_strategy` flag holds the parameters
   of an UNWHITENED q(u) = N(mq, S); VariationalStrategy converts them on the first call to
   m_w = L^-1 (mq - mz), S_w = L^-1 S L^-T.  For ANY root L of Kzz with inverse Linv the converted parameters
   describe the same q(u) ... *)
From GPV Require Import Proofs.C14_legacy.
Theorem c14_legacy_conversion_roundtrip :
  forall (K : Fld) m (L Linv : M), is_inverse m L Linv ->
    forall mz mq S,
    meq m 1 (unwhiten_mean m L mz (legacy_mean m Linv mz mq)) mq /\
    meq m m (unwhiten_cov m L (legacy_cov m Linv S)) S.
Proof. intros K m L Linv H mz mq S. split; [exact (@legacy_mean_roundtrip K m L Linv H mz mq)|exact (@legacy_cov_roundtrip K m L Linv H S)]. Qed.
Print Assumptions c14_legacy_conversion_roundtrip.

(* ... hence the whitened predictive evaluated at the CONVERTED parameters is the unwhitened closed form of the
   ORIGINAL (mq, S), for all sizes: what a loaded legacy model must predict, in eval and in train mode *)
Theorem c14_legacy_predictive_is_unwhitened_closed_form :
  forall (K : Fld) m n Kzz Kzx Kxx Kinv L Linv,
    meq m m (mmul m L (mT L)) Kzz -> is_inverse m L Linv -> is_inverse m Kzz Kinv ->
    forall mx mz mq S,
    meq n 1 (wh_mean m (interp m Linv Kzx) mx (legacy_mean m Linv mz mq)) (unwh_mean m Kzx Kinv mx mz mq) /\
    meq n n (wh_cov m (interp m Linv Kzx) Kxx (legacy_cov m Linv S)) (unwh_cov m Kzz Kzx Kxx Kinv S).
Proof.
  intros K m n Kzz Kzx Kxx Kinv L Linv HL HLi HK mx mz mq S. split;
  [exact (@legacy_predictive_mean K m n Kzz Kzx Kinv L Linv HL HLi HK mx mz mq)
  |exact (@legacy_predictive_cov K m n Kzz Kzx Kxx Kinv L Linv HL HLi HK S)].
Qed.
Print Assumptions c14_legacy_predictive_is_unwhitened_closed_form.
