(* C01 — Exact GP posterior equals the closed-form Gaussian conditional.
   Statement file: theorems, [exact lemma], Print Assumptions.  Nothing else. *)
From Coq Require Import Arith List QArith Qcanon.
From GPV Require Import Base.LinAlg Base.Exec Models.C01_posterior Proofs.C01_posterior.

(* the covariance the code computes is K** - K*x (Kxx+S)^-1 Kx*, for every n, t *)
Theorem c01_cov_is_closed_form :
  forall (K : Fld) n t KJ Ainv, symmetric (n + t) KJ ->
    meq t t (post_cov n KJ Ainv) (cov_closed n KJ Ainv).
Proof. intros K. exact (@post_cov_closed K). Qed.
Print Assumptions c01_cov_is_closed_form.

(* fast_pred_var at full rank is exact for ANY root of the inverse, any size *)
Theorem c01_cov_root_correct :
  forall (K : Fld) n t r KJ R Ainv, meq n n (mmul r R (mT R)) Ainv ->
    meq t t (cov_root n r KJ R) (post_cov n KJ Ainv).
Proof. intros K. exact (@cov_root_correct K). Qed.
Print Assumptions c01_cov_root_correct.

(* the closed form IS the Gaussian conditional: K*x A^-1 is the unique predictor with a
   residual uncorrelated with y ... *)
Theorem c01_conditional_predictor_unique :
  forall (K : Fld) n t KJ S Ainv B, is_inverse n (train_covar KJ S) Ainv ->
    (meq t n (residual_cross n KJ S B) mzero <-> meq t n B (mmul n (Ksx n KJ) Ainv)).
Proof. intros K. exact (@residual_uncorrelated_iff K). Qed.
Print Assumptions c01_conditional_predictor_unique.

(* ... and the covariance of that residual is the closed form *)
Theorem c01_conditional_residual_cov :
  forall (K : Fld) n t KJ S Ainv, symmetric (n + t) KJ -> symmetric n (train_covar KJ S) ->
    is_inverse n (train_covar KJ S) Ainv ->
    meq t t (residual_cov n KJ S (mmul n (Ksx n KJ) Ainv)) (cov_closed n KJ Ainv).
Proof. intros K. exact (@residual_cov_closed K). Qed.
Print Assumptions c01_conditional_residual_cov.

(* mean_cache is the unique solution of (Kxx+S) a = y - mx *)
Theorem c01_mean_cache_unique :
  forall (K : Fld) n muJ KJ S Ainv y a, is_inverse n (train_covar KJ S) Ainv ->
    meq n 1 (mmul n (train_covar KJ S) a) (msub y (sub 0 0 muJ)) ->
    meq n 1 a (mean_cache n muJ Ainv y).
Proof. intros K. exact (@mean_cache_unique K). Qed.
Print Assumptions c01_mean_cache_unique.

(* passing the posterior through the likelihood adds the noise exactly once *)
Theorem c01_marginal_adds_noise_once :
  forall (K : Fld) n t KJ Ainv Ss,
    meq t t (msub (marginal_cov n KJ Ainv Ss) (post_cov n KJ Ainv)) Ss.
Proof. intros K. exact (@marginal_adds_noise_once K). Qed.
Print Assumptions c01_marginal_adds_noise_once.

(* the executable model only ever uses a certified inverse *)
Theorem c01_run_inverse_certified :
  forall n A Mi, inv_checked n A = Some Mi -> is_inverse n A Mi.
Proof. exact run_inverse_certified. Qed.
Print Assumptions c01_run_inverse_certified.

(* multitask: the interleaved flattening puts all train (point, task) pairs before num_train*T *)
Theorem c01_multitask_interleaved_split :
  forall n T i a, (a < T)%nat -> ((i * T + a < n * T)%nat <-> (i < n)%nat).
Proof. exact interleaved_split. Qed.
Print Assumptions c01_multitask_interleaved_split.

Theorem c01_noninterleaved_split_refuted :
  exists n t T i a, (a < T)%nat /\ (i < n)%nat /\ ~ (a * (n + t) + i < n * T)%nat.
Proof. exact noninterleaved_split_refuted. Qed.
Print Assumptions c01_noninterleaved_split_refuted.

(* lazy vs eager kernel evaluation: slicing the joint commutes with evaluating its entries *)
Theorem c01_eager_lazy_blocks_agree :
  forall (K : Fld) (k : nat -> nat -> car) r c p q,
    meq p q (sub r c (fun i j => k i j)) (fun i j => k (r + i)%nat (c + j)%nat).
Proof. intros K. exact (@eager_lazy_blocks_agree K). Qed.
Print Assumptions c01_eager_lazy_blocks_agree.

(* kernels with active_dims, evaluated lazily: evaluate_kernel puts the kernel object's active_dims back, hence
   for ANY interleaving of building lazy tensors and evaluating them on one shared kernel object (any number of
   predictions of one model) every evaluation is the eager evaluation on the active columns *)
Theorem c01_lazy_active_dims_agree :
  forall (K : Fld) (kf : M -> M -> M) a ops, lazy_run kf true a nil ops = eager_run kf a nil ops.
Proof. intros K. exact (@lazy_eq_eager K). Qed.
Print Assumptions c01_lazy_active_dims_agree.

(* ... and the restoration is needed: without it the first use is still right, the second is not *)
Theorem c01_lazy_active_dims_not_restored_refuted :
  exists (kf : @M QcF -> @M QcF -> @M QcF) a ops,
    nth 1 (lazy_run kf false a nil ops) mzero 0%nat 0%nat <> nth 1 (eager_run kf a nil ops) mzero 0%nat 0%nat /\
    nth 0 (lazy_run kf false a nil ops) mzero 0%nat 0%nat = nth 0 (eager_run kf a nil ops) mzero 0%nat 0%nat.
Proof. exact lazy_not_restoring_refuted. Qed.
Print Assumptions c01_lazy_active_dims_not_restored_refuted.

Example ex_c01_lazy_ops :
  length (lazy_run ex_kf true (Some (cons 1%nat nil)) nil ex_ops) = 2%nat /\
  nth 1 (lazy_run ex_kf true (Some (cons 1%nat nil)) nil ex_ops) mzero 0%nat 0%nat = 1%Qc.
Proof. exact ex_lazy_ops_nonvacuous. Qed.

(* ---- the EXECUTED model is the REAL-NUMBER model (Base/Morph.v, Proofs/C01_morph.v) ----------------
   The driver compares the implementation with the model run on exact rationals (instance QcF).  Q2R'
   (the denotation of rational constants) is a field morphism QcF -> RF that commutes with every matrix
   operation the model is built from.  Whenever run_posterior gets past its certificate check, the
   inverse it used maps to a two-sided real inverse of the real train covariance, and the rationals it
   prints, read as reals, are the real-number posterior mean / covariance / marginal of the real-number
   inputs computed with ANY real inverse AinvR - i.e. (c01_conditional_predictor_unique,
   c01_conditional_residual_cov at K := RF) the Gaussian conditional over R.  Every n, t. *)
From GPV Require Import Base.Expr Base.Morph Proofs.C01_morph.

Theorem c01_executed_model_is_real_model :
  forall n t (KJ muJ S Y Ainv : @M QcF),
    inv_checked n (mat n n (@train_covar QcF KJ S)) = Some Ainv ->
    is_inverse n (@train_covar RF (mapR KJ) (mapR S)) (mapR Ainv) /\
    forall AinvR : @M RF, is_inverse n (@train_covar RF (mapR KJ) (mapR S)) AinvR ->
      meq t 1 (mapR (@post_mean QcF n KJ muJ Ainv Y)) (@post_mean RF n (mapR KJ) (mapR muJ) AinvR (mapR Y)) /\
      meq t t (mapR (@post_cov QcF n KJ Ainv)) (@post_cov RF n (mapR KJ) AinvR) /\
      forall Ss, meq t t (mapR (@marginal_cov QcF n KJ Ainv Ss))
                         (@marginal_cov RF n (mapR KJ) AinvR (mapR Ss)).
Proof. exact executed_model_is_real_model. Qed.
Print Assumptions c01_executed_model_is_real_model.

(* what run_posterior prints is literally those model terms *)
Theorem c01_run_posterior_prints_model :
  forall n t kj mu s y,
    run_posterior (n, t, kj, mu, s, y) =
    match inv_checked n (mat n n (@train_covar QcF (@of_list QcF kj) (@of_list QcF s))) with
    | None => cons 0%Z nil
    | Some Ainv =>
        cons 1%Z (ser_mat t 1 (@post_mean QcF n (@of_list QcF kj) (@vec_of_list QcF mu) Ainv (@vec_of_list QcF y))
                  ++ ser_mat t t (@post_cov QcF n (@of_list QcF kj) Ainv))
    end.
Proof. exact run_posterior_unfold. Qed.
Print Assumptions c01_run_posterior_prints_model.

(* the commutation itself, entrywise at EVERY index pair and for ANY field morphism (generic, no axioms) *)
Theorem c01_model_commutes_with_field_morphisms :
  forall (K1 K2 : Fld) (phi : @car K1 -> @car K2), FldMorph K1 K2 phi ->
    forall n (KJ muJ Ainv y Ss : @M K1) i j,
      phi (@post_mean K1 n KJ muJ Ainv y i j)
        = @post_mean K2 n (mmap phi KJ) (mmap phi muJ) (mmap phi Ainv) (mmap phi y) i j /\
      phi (@post_cov K1 n KJ Ainv i j) = @post_cov K2 n (mmap phi KJ) (mmap phi Ainv) i j /\
      phi (@marginal_cov K1 n KJ Ainv Ss i j)
        = @marginal_cov K2 n (mmap phi KJ) (mmap phi Ainv) (mmap phi Ss) i j.
Proof. exact model_commutes_with_field_morphisms. Qed.
Print Assumptions c01_model_commutes_with_field_morphisms.

(* Q2R' IS such a morphism (so is any composite), it is injective, and it preserves certified inverses *)
Theorem c01_Q2R_is_field_morphism : FldMorph QcF RF Q2R' /\ (forall x y, Q2R' x = Q2R' y -> x = y).
Proof. exact Q2R_is_field_morphism. Qed.
Print Assumptions c01_Q2R_is_field_morphism.

Example ex_c01_executed_model_hypothesis :
  exists Ainv, inv_checked 1 (mat 1 1 (@train_covar QcF exm_KJ exm_S)) = Some Ainv /\
    Ainv 0%nat 0%nat = qc 2 5.
Proof. exact ex_executed_model_hyp. Qed.
Print Assumptions ex_c01_executed_model_hypothesis.
