(* C01 — Exact GP posterior equals the closed-form Gaussian conditional.
   Statement file: theorems, [exact lemma], Print Assumptions.  Nothing else. *)
From Coq Require Import Arith List QArith Qcanon.
From GPV Require Import Base.LinAlg Base.Exec Models.C01_posterior Proofs.C01_posterior.

(* the covariance the code computes is K** - K*x (Kxx+S)^-1 Kx*, for every n, t *)
Theorem c01_cov_is_closed_form :
  forall (K : Fld) n t KJ Ainv, symmetric (n + t) KJ ->
    meq t t (post_cov n KJ Ainv) (cov_closed n KJ Ainv).
Proof. intros K. exact (@post_cov_closed K). Qed.
Print Assumptions c01_cov_is_closed_form.

(* fast_pred_var at full rank is exact for ANY root of the inverse, any size *)
Theorem c01_cov_root_correct :
  forall (K : Fld) n t r KJ R Ainv, meq n n (mmul r R (mT R)) Ainv ->
    meq t t (cov_root n r KJ R) (post_cov n KJ Ainv).
Proof. intros K. exact (@cov_root_correct K). Qed.
Print Assumptions c01_cov_root_correct.

(* the closed form IS the Gaussian conditional: K*x A^-1 is the unique predictor with a
   residual uncorrelated with y ... *)
Theorem c01_conditional_predictor_unique :
  forall (K : Fld) n t KJ S Ainv B, is_inverse n (train_covar KJ S) Ainv ->
    (meq t n (residual_cross n KJ S B) mzero <-> meq t n B (mmul n (Ksx n KJ) Ainv)).
Proof. intros K. exact (@residual_uncorrelated_iff K). Qed.
Print Assumptions c01_conditional_predictor_unique.

(* ... and the covariance of that residual is the closed form *)
Theorem c01_conditional_residual_cov :
  forall (K : Fld) n t KJ S Ainv, symmetric (n + t) KJ -> symmetric n (train_covar KJ S) ->
    is_inverse n (train_covar KJ S) Ainv ->
    meq t t (residual_cov n KJ S (mmul n (Ksx n KJ) Ainv)) (cov_closed n KJ Ainv).
Proof. intros K. exact (@residual_cov_closed K). Qed.
Print Assumptions c01_conditional_residual_cov.

(* mean_cache is the unique solution of (Kxx+S) a = y - mx *)
Theorem c01_mean_cache_unique :
  forall (K : Fld) n muJ KJ S Ainv y a, is_inverse n (train_covar KJ S) Ainv ->
    meq n 1 (mmul n (train_covar KJ S) a) (msub y (sub 0 0 muJ)) ->
    meq n 1 a (mean_cache n muJ Ainv y).
Proof. intros K. exact (@mean_cache_unique K). Qed.
Print Assumptions c01_mean_cache_unique.

(* passing the posterior through the likelihood adds the noise exactly once *)
Theorem c01_marginal_adds_noise_once :
  forall (K : Fld) n t KJ Ainv Ss,
    meq t t (msub (marginal_cov n KJ Ainv Ss) (post_cov n KJ Ainv)) Ss.
Proof. intros K. exact (@marginal_adds_noise_once K). Qed.
Print Assumptions c01_marginal_adds_noise_once.

(* the executable model only ever uses a certified inverse *)
Theorem c01_run_inverse_certified :
  forall n A Mi, inv_checked n A = Some Mi -> is_inverse n A Mi.
Proof. exact run_inverse_certified. Qed.
Print Assumptions c01_run_inverse_certified.

(* multitask: the interleaved flattening puts all train (point, task) pairs before num_train*T *)
Theorem c01_multitask_interleaved_split :
  forall n T i a, (a < T)%nat -> ((i * T + a < n * T)%nat <-> (i < n)%nat).
Proof. exact interleaved_split. Qed.
Print Assumptions c01_multitask_interleaved_split.

Theorem c01_noninterleaved_split_refuted :
  exists n t T i a, (a < T)%nat /\ (i < n)%nat /\ ~ (a * (n + t) + i < n * T)%nat.
Proof. exact noninterleaved_split_refuted. Qed.
Print Assumptions c01_noninterleaved_split_refuted.

(* lazy vs eager kernel evaluation: slicing the joint commutes with evaluating its entries *)
Theorem c01_eager_lazy_blocks_agree :
  forall (K : Fld) (k : nat -> nat -> car) r c p q,
    meq p q (sub r c (fun i j => k i j)) (fun i j => k (r + i)%nat (c + j)%nat).
Proof. intros K. exact (@eager_lazy_blocks_agree K). Qed.
Print Assumptions c01_eager_lazy_blocks_agree.

(* kernels with active_dims, evaluated lazily: evaluate_kernel puts the kernel object's active_dims back, hence
   for ANY interleaving of building lazy tensors and evaluating them on one shared kernel object (any number of
   predictions of one model) every evaluation is the eager evaluation on the active columns *)
Theorem c01_lazy_active_dims_agree :
  forall (K : Fld) (kf : M -> M -> M) a ops, lazy_run kf true a nil ops = eager_run kf a nil ops.
Proof. intros K. exact (@lazy_eq_eager K). Qed.
Print Assumptions c01_lazy_active_dims_agree.

(* ... and the restoration is needed: without it the first use is still right, the second is not *)
Theorem c01_lazy_active_dims_not_restored_refuted :
  exists (kf : @M QcF -> @M QcF -> @M QcF) a ops,
    nth 1 (lazy_run kf false a nil ops) mzero 0%nat 0%nat <> nth 1 (eager_run kf a nil ops) mzero 0%nat 0%nat /\
    nth 0 (lazy_run kf false a nil ops) mzero 0%nat 0%nat = nth 0 (eager_run kf a nil ops) mzero 0%nat 0%nat.
Proof. exact lazy_not_restoring_refuted. Qed.
Print Assumptions c01_lazy_active_dims_not_restored_refuted.

Example ex_c01_lazy_ops :
  length (lazy_run ex_kf true (Some (cons 1%nat nil)) nil ex_ops) = 2%nat /\
  nth 1 (lazy_run ex_kf true (Some (cons 1%nat nil)) nil ex_ops) mzero 0%nat 0%nat = 1%Qc.
Proof. exact ex_lazy_ops_nonvacuous. Qed.
